"""C16 -- configuration sources are merged in the documented order of authority.

(D) specs/ConfigMerge.tla: the effective value of one setting after the four source steps
    (framework defaults, configuration file chosen by -c on the command line / in GUNICORN_CMD_ARGS /
    ./gunicorn.conf.py, GUNICORN_CMD_ARGS, command line) over the complete product setting kind x
    mention per source (none / valid A / valid B / the default spelled out / invalid) x which
    namings of a configuration file exist.  MostAuthoritativeWins, UnmentionedUntouched,
    InvalidStopsStartup, ValidStarts for Dev = {}; every Dev must break a clause.
(C) TLC emits the product (specs/ConfigMergeCases.tla, ~10^4 cases); each case is instantiated for
    EVERY concrete setting of gunicorn.config.KNOWN_SETTINGS (values per validator family,
    harness/drivers/config_merge.py) and loaded through the real WSGIApplication in worker
    processes; the model's predicted outcome is compared (drift).
(P) specs/ConfigMergeTrace.tla judges every load against the documented rule only.
"""
import json
import os
import subprocess
import sys
from concurrent.futures import ThreadPoolExecutor

import tlc
from drivers import config_merge as drv

OUT = tlc.OUT
SCRATCH = os.path.join(OUT, "configmerge")
INV = ["MostAuthoritativeWins", "InvalidStopsStartup", "ValidStarts", "FallbackOnlyWhenUnmentioned"]
DEVS = {"EnvBeforeFile": "MostAuthoritativeWins", "CliIfDifferent": "MostAuthoritativeWins",
        "SwallowInvalid": "InvalidStopsStartup", "EnvFileIgnored": "MostAuthoritativeWins",
        "ReloadKeepsValues": "MostAuthoritativeWins", "FallbackFirst": "FallbackOnlyWhenUnmentioned"}
NPROC = 8


def design(ctx):
    def one(job):
        label, dev = job
        path = os.path.join(OUT, "cfg", "ConfigMerge_%s.cfg" % label)
        os.makedirs(os.path.dirname(path), exist_ok=True)
        tlc.write_cfg(path, spec="Spec", constants={"Dev": set(dev)}, invariants=INV,
                      properties=["UnmentionedUntouched"], constraints=["LevelBound"])
        return label, tlc.run("ConfigMerge", path, name="ConfigMerge_" + label, workers=2, timeout=600)
    jobs = [("design", set())] + [("dev_" + d, {d}) for d in DEVS]
    with ThreadPoolExecutor(max_workers=6) as ex:
        res = list(ex.map(one, jobs))
    for label, r in res:
        if label == "design":
            if not r.ok:
                raise tlc.TLCError("ConfigMerge design violates %s" % sorted(set(r.violated)))
            ctx.add_model(r, "complete product of kinds x mentions x file namings")
            ctx.coverage["exhaustive"] = True
        else:
            d = label[4:]
            # (skipping a spelled-out default also leaves the stand-in variable in charge: either invariant may trip first)
            ok = DEVS[d] in r.violated or (d == "CliIfDifferent" and "FallbackOnlyWhenUnmentioned" in r.violated)
            ctx.coverage.setdefault("deviation_runs", []).append(
                {"dev": d, "violated": sorted(set(r.violated)), "reproduced": ok})
            if not ok:
                raise tlc.TLCError("deviation %s does not break %s" % (d, DEVS[d]))


def emit_cases():
    cfgp = os.path.join(OUT, "cfg", "ConfigMergeCases.cfg")
    os.makedirs(os.path.dirname(cfgp), exist_ok=True)
    tlc.write_cfg(cfgp, spec="CSpec", constants={"Dev": set()})
    outp = os.path.join(OUT, "configmerge_cases.ndjson")
    if os.path.exists(outp):
        os.unlink(outp)
    tlc.run("ConfigMergeCases", cfgp, name="ConfigMergeCases", workers=1, timeout=600, env={"CASES_OUT": outp})
    with open(outp) as f:
        rows = [json.loads(ln) for ln in f if ln.strip()]
    rows.sort(key=lambda r: json.dumps(r, sort_keys=True))
    return rows


def driver(n, mode, payload=None, timeout=1500, fbset=None):
    wd = os.path.join(SCRATCH, "w%d" % n)
    os.makedirs(wd, exist_ok=True)
    env = dict(os.environ, VERIF_REPO=os.environ.get("VERIF_REPO", "/repo"), PWD=wd)
    if fbset:
        env["VERIF_FBSET"] = str(fbset)
    p = subprocess.run([sys.executable, "-B", os.path.abspath(drv.__file__), mode], cwd=wd, env=env,
                       input=json.dumps(payload) if payload is not None else None, capture_output=True, text=True,
                       timeout=timeout)
    if p.returncode != 0 or not p.stdout.strip():
        raise RuntimeError("config_merge driver %s failed (rc=%s): %s" % (mode, p.returncode, p.stderr[-2000:]))
    return json.loads(p.stdout)


def sources_of(case, label):
    """which sources (or 'default') spell the abstract value `label` in this case"""
    out = []
    for src in ("cli", "env", "file", "fw"):
        m = case[src]
        if m == label or (label == "D" and m == "dflt"):
            out.append(src)
    return out


def got_from(case, obs, fail):
    if fail:
        return "startup-failure"
    if not obs:
        return "other-value"
    srcs = []
    for L in obs:
        srcs += sources_of(case, L)
    chosen = "cli" if "cli" in case["files"] else "env" if "env" in case["files"] else \
        "cwd" if "cwd" in case["files"] else None
    if not srcs:
        if "D" in obs:
            return "default"
        if len(case["files"]) > (1 if chosen else 0):
            return "decoy-file"
        return "other-value"
    for s in ("fw", "file", "env", "cli"):
        if s in srcs:
            return s
    return "other-value"


def top_of(case):
    chosen = bool(case["files"])
    for src in ("cli", "env", "file", "fw"):
        if src == "file" and not chosen:
            continue
        if case[src] != "no":
            return src
    return "none"


def c16(ctx):
    rng = ctx.rng
    os.makedirs(SCRATCH, exist_ok=True)
    with ThreadPoolExecutor(max_workers=NPROC + 1) as ex:
        fd = ex.submit(design, ctx)
        rows = emit_cases()
        by_kind = {}
        for r in rows:
            by_kind.setdefault(r["kind"], []).append(r)
        desc = driver(0, "describe")
        settings = desc["settings"]
        ctx.coverage["settings"] = len(settings)
        ctx.coverage["settings_unusable"] = desc["unusable"]
        for name, why in desc["unusable"].items():
            ctx.notes.append("setting %s not exercised: %s" % (name, why))
        per = 500 if ctx.quick else None
        jobs = []
        for s in settings:
            cases = by_kind.get(s["kind"], [])
            if per is not None and len(cases) > per:
                nobad = [c for c in cases if "bad" not in (c["fw"], c["file"], c["env"], c["cli"])]
                pick = rng.sample(nobad, min(len(nobad), per // 2))
                rest = [c for c in cases if c not in pick]
                pick += rng.sample(rest, min(len(rest), per - len(pick)))
                cases = pick
            for c in cases:
                jobs.append((s["name"], c))
            # the same cases with an invalid value that compares equal to the value in force (1.0 for 1, 0 for False);
            # the driver skips them for settings that have no such value
            eq = [c for c in by_kind.get(s["kind"], []) if "bad" in (c["fw"], c["file"])]
            if per is not None and len(eq) > 80:
                eq = rng.sample(eq, 80)
            for c in eq:
                jobs.append((s["name"], dict(c, badeq=True)))
            for c in eq[:40]:
                jobs.append((s["name"], dict(c, badalt=True)))
            # reload (HUP) after the chosen file stopped mentioning the setting: judged as the case with file = "no"
            rl = [c for c in by_kind.get(s["kind"], []) if c["file"] in ("A", "B") and c["files"]
                  and "bad" not in (c["fw"], c["env"], c["cli"])]
            if per is not None and len(rl) > 60:
                rl = rng.sample(rl, 60)
            for c in rl:
                jobs.append((s["name"], dict(c, reload=True)))
        # the stand-in environment variables (SENDFILE, WEB_CONCURRENCY, PORT, FORWARDED_ALLOW_IPS): the same loads in two
        # processes that differ only in the variable's value; what the server works with may differ only while no
        # source mentions the setting
        fbjobs = []
        for s in settings:
            if s["name"] not in drv.FALLBACK_SETTINGS:
                continue
            cs = [c for c in by_kind.get(s["kind"], []) if "dflt" not in (c["env"], c["cli"])]
            if per is not None and len(cs) > 300:
                cs = rng.sample(cs, 300)
            fbjobs += [(s["name"], c) for c in cs]
        keys = ("fw", "file", "env", "cli", "files")
        fbf = [ex.submit(driver, 100 + k, "run", [[nm, {x: c[x] for x in keys}] for nm, c in fbjobs], fbset=k) for k in (1, 2)]
        ctx.coverage["abstract_cases"] = len(rows)
        # distribute: interleave so that every worker gets a mix
        parts = [jobs[n::NPROC] for n in range(NPROC)]
        futs = [ex.submit(driver, n, "run", [[nm, {k: c[k] for k in ("fw", "file", "env", "cli", "files", "badeq", "reload", "badalt") if k in c}]
                                             for nm, c in part]) for n, part in enumerate(parts)]
        results = [f.result() for f in futs]
        fb1, fb2 = [f.result() for f in fbf]
        fd.result()
    per_setting = {}
    skipped = {"inexpressible": 0, "unusable": 0}
    loads = 0
    for part, res in zip(parts, results):
        for (nm, c), r in zip(part, res):
            if "skip" in r:
                skipped[r["skip"]] += 1
                continue
            loads += 1
            ev = {"kind": c["kind"], "fw": c["fw"], "file": c["file"], "env": c["env"], "cli": c["cli"],
                  "files": c["files"], "fail": r["fail"], "obs": r["obs"], "fb": "no", "fbdep": False}
            if c.get("badeq"):
                ev["badeq"] = True
            if c.get("badalt"):
                ev["badalt"] = True
            if c.get("reload"):
                if not r.get("reloaded"):
                    continue              # the first load already stopped: nothing was reloaded
                ev["reload"] = True
                ev["file"] = "no"         # what the sources say at the time of the reload
            per_setting.setdefault(nm, []).append((ev, r, c))
    nfb = 0
    for (nm, c), r1, r2 in zip(fbjobs, fb1, fb2):
        if "skip" in r1 or "skip" in r2:
            continue
        loads += 2
        nfb += 1
        dep = (not r1["fail"]) and (not r2["fail"]) and r1.get("used") != r2.get("used")
        ev = {"kind": c["kind"], "fw": c["fw"], "file": c["file"], "env": c["env"], "cli": c["cli"],
              "files": c["files"], "fail": r1["fail"], "obs": r1["obs"], "fb": "set", "fbdep": dep}
        r1 = dict(r1, stand_in=drv.FALLBACK_SETTINGS[nm], used_with_other_value=r2.get("used"))
        per_setting.setdefault(nm, []).append((ev, r1, c))
    ctx.coverage["loads_with_stand_in_variable"] = nfb
    ctx.coverage["loads"] = loads
    ctx.coverage["cases_skipped_inexpressible"] = skipped["inexpressible"]
    ctx.coverage["loads_per_setting_min_max"] = [min(len(v) for v in per_setting.values()),
                                                 max(len(v) for v in per_setting.values())]
    judge(ctx, per_setting)
    from props import config_real
    config_real.real_side(ctx)
    nm = sorted(per_setting)[0]
    for ev, r, c in per_setting.get("workers", per_setting[nm])[:3]:
        ctx.sample({"setting": "workers" if "workers" in per_setting else nm, "case": ev, "argv": r.get("argv"),
                    "GUNICORN_CMD_ARGS": r.get("envargs"), "observed": r.get("detail")})
    ctx.coverage["rule"] = ("TLC: complete product of 7 setting kinds x mentions of 4 sources x 8 file namings (%d "
                            "cases); each instantiated for every setting of KNOWN_SETTINGS (%s) and loaded "
                            "through the real WSGIApplication" % (len(rows), "sampled" if ctx.quick else "complete"))
    ctx.assumptions += [
        "values: two valid picks and one invalid pick per validator family; 'invalid' is fixed by the harness, "
        "not by the tree's validator; effective values are compared after the setting's own command-line type and "
        "validator (its normalisation)",
        "an invalid mention by a less authoritative source may stop startup or be overridden (both allowed)",
        "store_true / store_const flags can only say True / False on the command line; settings without a flag "
        "are exercised through the framework dict and the file only (skipped combinations are counted)",
        "default_proc_name: the default is the application name given on the command line (WSGIApplication.init)",
        "config: -c is both the mention and the naming of the file"]


def judge(ctx, per_setting):
    pending = {nm: list(v) for nm, v in per_setting.items()}
    total = 0
    ndrift = 0
    for rnd in range(8):
        names = sorted(n for n in pending if pending[n])
        if not names:
            break
        traces = [{"ev": [e for e, _, _ in pending[n]]} for n in names]
        verdicts, stats = tlc.validate_batch("ConfigMergeTrace", "ConfigMergeTrace.cfg", traces,
                                             name="ConfigMergeTrace_C16_r%d" % rnd, chunk=40)
        if rnd == 0:
            ctx.add_traces(sum(len(t["ev"]) for t in traces), stats)
        nxt = {}
        for n, (v, step) in zip(names, verdicts):
            if v == "ok":
                continue
            ev, r, c = pending[n][step - 1]
            if v.startswith("drift:"):
                ndrift += 1
                if ndrift <= 6:
                    ctx.note_drift("setting %s: %s for case %s (observed %s)" % (n, v, ev, r.get("detail")))
                # conformance is checked once per trace; go on after the drifting event
                nxt[n] = pending[n][step:]
                continue
            total += 1
            sig = "C16/%s/setting=%s,kind=%s,top=%s,got=%s%s%s" % (v, n, ev["kind"], top_of(ev),
                                                                  got_from(ev, ev["obs"], ev["fail"]),
                                                                  ",invalid==current" if ev.get("badeq") else ",invalid-type" if ev.get("badalt") else "",
                                                                  ",after-reload" if ev.get("reload") else "")
            if v == "FallbackOnlyWhenUnmentioned":
                sig = "C16/%s/setting=%s,top=%s,variable=%s" % (v, n, top_of(ev), r.get("stand_in"))
            ctx.violation(sig, "%s: setting %s (%s): sources fw=%s file=%s env=%s cli=%s, files named by %s -> %s; "
                          "argv=%s GUNICORN_CMD_ARGS=%r" % (v, n, ev["kind"], ev["fw"], ev["file"], ev["env"],
                                                            ev["cli"], ev["files"], r.get("detail"), r.get("argv"),
                                                            r.get("envargs")),
                          {"setting": n, "case": ev, "observed": r})
            nxt[n] = pending[n][step:]
        pending = nxt
    ctx.coverage["drift_events"] = ndrift


def replay(ctx, data):
    case = data["case"]
    n, ev = case["setting"], case["case"]
    print("replaying %s" % data["signature"])
    os.makedirs(SCRATCH, exist_ok=True)
    res = driver(9, "run", [[n, {k: ev[k] for k in ("fw", "file", "env", "cli", "files", "badeq", "reload", "badalt") if k in ev}]])[0]
    print("observed:", res)
    if "skip" in res:
        return 0
    e = dict(ev, fail=res["fail"], obs=res["obs"])
    verdicts, _ = tlc.validate_batch("ConfigMergeTrace", "ConfigMergeTrace.cfg", [{"ev": [e]}],
                                     name="ConfigMergeTrace_replay")
    print("verdict:", verdicts[0])
    if verdicts[0][0] != "ok" and not verdicts[0][0].startswith("drift:"):
        print("VIOLATION property=%s replay=%s" % (data["property"], "(replayed)"))
        return 1
    return 0


CHECKS = {"C16": c16}
