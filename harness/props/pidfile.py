"""C17 -- the pid file names the running master, exclusively and atomically.

(D) specs/Pidfile.tla, operation-atomic configuration (C17's quantifier: every sequence of <= MaxOps
    operations / environment events of two instances, a foreign writer and process deaths, with a
    crash injected before every system call of create): RefusesLiveForeign, TakesOverStale,
    TakesOverInstalls, NeverPartialContent, UnlinkOnlyOwn, RenameOnlyOwn, NeverDeletesForeign,
    RenameMoves.  Each named deviation (Dev) must break its clause (non-vacuity).  A second,
    exploratory configuration interleaves system calls (TOCTOU windows): its failures are notes.
(C) spec -> code: TLC behaviours (-simulate, system-call grain) and the complete TLC enumeration of
    short histories (specs/PidfileCases.tla) are replayed operation by operation into the real
    gunicorn.pidfile.Pidfile on a scratch directory; directory listing, contents, Pidfile.pid /
    fname, result and return value are compared with the model state (mismatch = drift).
    code -> spec: seeded random histories recorded from the real class must be behaviours of
    Pidfile.tla (PidfileTrace, cv).
(P) specs/PidfileTrace.tla judges every recorded system call of every history against the clauses
    of C17 only (verdict).  Only this raises a violation.
"""
import json
import os
import random
from concurrent.futures import ThreadPoolExecutor

import tlc
from drivers import pidfile as drv

OUT = tlc.OUT
SCRATCH = os.path.join(OUT, "pidfile")

PROPS = ["TakesOverStale", "TakesOverInstalls", "NeverPartialContent", "UnlinkOnlyOwn", "RenameOnlyOwn",
         "NeverDeletesForeign", "UnlinkOnlyOwnAtRead", "RenameMoves"]
INVS = ["TypeOK", "RefusesLiveForeign"]
DEVS = {"EsrchAlive": {"TakesOverStale"}, "EpermDead": {"RefusesLiveForeign", "NeverDeletesForeign"},
        "DirectWrite": {"NeverPartialContent"}, "UnlinkNoCompare": {"UnlinkOnlyOwn", "RenameOnlyOwn"},
        "RenameNoUnlink": {"RenameMoves"}, "NoRaise": {"RefusesLiveForeign", "NeverDeletesForeign"}}


def cfg(name, atomic=True, maxops=6, maxcrash=1, dev=(), own=False, hist="none", crash_in="create",
        props=True, constraints=("LevelBound",), view=True):
    path = os.path.join(OUT, "cfg", name + ".cfg")
    os.makedirs(os.path.dirname(path), exist_ok=True)
    tlc.write_cfg(path, spec="Spec",
                  constants={"Atomic": atomic, "MaxOps": maxops, "MaxCrash": maxcrash, "Dev": set(dev),
                             "OwnStale": own, "HistMode": hist, "CrashIn": crash_in},
                  invariants=INVS if props else [], properties=PROPS if props else [],
                  constraints=list(constraints), view="view" if view else None)
    return path


# ---------------------------------------------------------------------------------------------
# (D)
# ---------------------------------------------------------------------------------------------

def design(ctx):
    maxops = 6 if ctx.quick else 7

    def main():
        return tlc.run("Pidfile", cfg("Pidfile_atomic", maxops=maxops), name="Pidfile_atomic", workers=8,
                       timeout=1500)

    def dev(d):
        return d, tlc.run("Pidfile", cfg("Pidfile_dev_" + d, maxops=3, dev=[d]), name="Pidfile_dev_" + d,
                          workers=2, timeout=600)

    def explore(label, **kw):
        """exploratory configuration: list every clause it breaks (re-run without the clause that
        failed until TLC finds nothing more; cheaper than -continue, which prints every trace)"""
        props, invs, broken, last = list(PROPS), list(INVS), [], None
        for _ in range(len(PROPS) + len(INVS)):
            path = cfg("Pidfile_" + label, **kw)
            tlc.write_cfg(path, spec="Spec",
                          constants={"Atomic": kw.get("atomic", True), "MaxOps": kw["maxops"], "MaxCrash": 1,
                                     "Dev": set(), "OwnStale": kw.get("own", False), "HistMode": "none",
                                     "CrashIn": kw.get("crash_in", "create")},
                          invariants=invs, properties=props, constraints=["LevelBound"], view="view")
            last = tlc.run("Pidfile", path, name="Pidfile_" + label, workers=2, timeout=1500)
            if last.ok:
                break
            for v in set(last.violated):
                broken.append(v)
                if v in props:
                    props.remove(v)
                if v in invs:
                    invs.remove(v)
        return last, sorted(set(broken))

    def inter():
        return explore("interleaved", atomic=False, maxops=3 if ctx.quick else 4, crash_in="any")

    def ownstale():
        return explore("ownstale", maxops=4, own=True)

    def shared_tmp():
        # the two clauses of specs/PidfileConcTrace.tla on the model: with private temporary files interleaved creates
        # never publish partial or foreign content; with one shared temporary file they do
        out = {}
        for label, dev in (("private", []), ("shared", ["SharedTmp"])):
            path = os.path.join(OUT, "cfg", "Pidfile_conc_%s.cfg" % label)
            tlc.write_cfg(path, spec="Spec",
                          constants={"Atomic": False, "MaxOps": 2, "MaxCrash": 1, "Dev": set(dev), "OwnStale": False,
                                     "HistMode": "none", "CrashIn": "create"},
                          invariants=["TypeOK"], properties=["NeverPartialContent"], constraints=["LevelBound"], view="view")
            out[label] = tlc.run("Pidfile", path, name="Pidfile_conc_" + label, workers=2, timeout=900)
        return out

    with ThreadPoolExecutor(max_workers=4) as ex:
        fm = ex.submit(main)
        fi = ex.submit(inter)
        fo = ex.submit(ownstale)
        fs = ex.submit(shared_tmp)
        fd = [ex.submit(dev, d) for d in DEVS]
        r = fm.result()
        if not r.ok:
            raise tlc.TLCError("Pidfile design (Dev = {}) violates %s" % sorted(set(r.violated)))
        ctx.add_model(r, "operation-atomic, MaxOps=%d, crash before every system call of create" % maxops)
        ctx.coverage["exhaustive"] = True
        for f in fd:
            d, rd = f.result()
            got = set(rd.violated)
            ok = (not rd.ok) and bool(got & DEVS[d])
            ctx.coverage.setdefault("deviation_runs", []).append(
                {"dev": d, "expected_one_of": sorted(DEVS[d]), "violated": sorted(got), "reproduced": ok})
            if not ok:
                raise tlc.TLCError("deviation %s does not break %s (got %s): clause is vacuous"
                                   % (d, sorted(DEVS[d]), sorted(got)))
        ri, ri_broken = fi.result()
        ro, ro_broken = fo.result()
        rs = fs.result()
        if not rs["private"].ok:
            raise tlc.TLCError("interleaved creates with private temporary files violate %s" % rs["private"].violated)
        ctx.add_model(rs["private"], "two creates, system calls interleaved, crash before any: NeverPartialContent")
        ctx.coverage.setdefault("deviation_runs", []).append(
            {"dev": "SharedTmp", "expected_one_of": ["NeverPartialContent"], "violated": sorted(set(rs["shared"].violated)),
             "reproduced": "NeverPartialContent" in rs["shared"].violated})
        if "NeverPartialContent" not in rs["shared"].violated:
            raise tlc.TLCError("deviation SharedTmp does not break NeverPartialContent under interleaving")
    ctx.coverage["exploratory_interleaved"] = {
        "distinct": ri.distinct, "generated": ri.generated,
        "violated": ri_broken, "note": "system-call interleaving; C17 quantifies over "
        "operation sequences, so these are observations, not verdicts"}
    ctx.coverage["exploratory_own_stale"] = {
        "distinct": ro.distinct, "violated": ro_broken,
        "note": "foreign writer may leave an instance's own pid in the file (pid reuse): create() returns "
                "early with Pidfile.pid = None (DESIGN O3)"}
    if ri_broken:
        ctx.notes.append("exploratory (system-call interleaving, TOCTOU): the model violates %s; "
                         "UnlinkOnlyOwnAtRead %s" % (sorted(set(ri_broken) - {"UnlinkOnlyOwnAtRead"}),
                                                     "fails too" if "UnlinkOnlyOwnAtRead" in ri_broken else "holds"))
    if ro_broken:
        ctx.notes.append("exploratory (stale file holding the starting master's own pid, i.e. pid reuse): "
                         "the model violates %s (O3: create() returns early, pid stays None)"
                         % ro_broken)
    return r


# ---------------------------------------------------------------------------------------------
# (C) spec -> code
# ---------------------------------------------------------------------------------------------

PROJ_KEYS = ("p", "q", "l", "fn", "mp")


def proj_eq(model_st, real_st):
    al = model_st["al"]
    al = al["__set__"] if isinstance(al, dict) else al
    if sorted(al) != sorted(real_st["al"]):
        return False
    return all(model_st[k] == real_st[k] for k in PROJ_KEYS)


def group_ops(hist):
    """model history -> list of groups: ("env", ev) | ("op", [events of one operation])"""
    out, cur = [], None
    for ev in hist:
        a = ev["a"]
        if a in ("foreign", "die"):
            out.append(("env", ev))
        elif a == "start":
            cur = [ev]
            out.append(("op", cur))
        elif a in ("step", "crash"):
            if cur is None:                      # HistMode "op": only the last event of the operation
                out.append(("op", [ev]))
            else:
                cur.append(ev)
                if ev["fin"]:
                    cur = None
    return out


def replay_history(hist, root, own=False):
    """replay one model history into the real class.  -> (world, drift text or None)"""
    w = drv.World(root)
    drift = None
    for kind, g in group_ops(hist):
        if kind == "env":
            if g["a"] == "foreign":
                w.foreign(g["x"], g["c"])
            else:
                w.die(g["c"])
            if drift is None and not proj_eq(g["st"], w.events[-1]["st"]):
                drift = "after %s: model %s, code %s" % (g["a"], g["st"], w.events[-1]["st"])
            continue
        lastm = g[-1]
        i, k, to = lastm["i"], lastm["k"], lastm["to"]
        plan = ("name", lastm["s"]) if lastm["a"] == "crash" else None
        fin, rt, evs = w.run_op(i, k, to, plan=plan)
        if drift is not None:
            continue
        what = "%s(%s) by %d" % (k, to, i)
        if fin != lastm["fin"]:
            drift = "%s: model result %r, code %r (%s)" % (what, lastm["fin"], fin, evs[-1].get("exc"))
        elif lastm["a"] != "crash" and rt != lastm["rt"]:
            drift = "%s: model returns %r, code %r" % (what, lastm["rt"], rt)
        elif not proj_eq(lastm["st"], evs[-1]["st"]):
            drift = "%s: model state %s, code %s" % (what, lastm["st"], evs[-1]["st"])
        elif len(g) > 1:
            # system-call grain: same calls in the same order with the same state after each
            msteps = [(e["s"], e["st"]) for e in g if e["a"] in ("step", "crash")]
            rsteps = [(e["s"], e["st"]) for e in evs if e["e"] in ("sys", "crash")]
            if [s for s, _ in msteps] != [s for s, _ in rsteps]:
                drift = "%s: model calls %s, code calls %s" % (what, [s for s, _ in msteps], [s for s, _ in rsteps])
            else:
                for (s, ms), (_, rs) in zip(msteps, rsteps):
                    if not proj_eq(ms, rs):
                        drift = "%s after %s: model %s, code %s" % (what, s, ms, rs)
                        break
    return w, drift


def tlc_hist_value(h):
    """hist as parsed by tlc.parse_state -> plain python (sets -> lists)"""
    return h


def simulate_histories(ctx, num, depth):
    c = cfg("Pidfile_sim", maxops=7, maxcrash=2, hist="sys", props=False, constraints=(), view=False)
    behs, r = tlc.simulate_behaviours("Pidfile", c, num=num, depth=depth, seed=ctx.seed + 1, name="Pidfile_sim",
                                      timeout=600)
    return [b[-1][1]["hist"] for b in behs if b[-1][1].get("hist")]


def enumerate_histories(ctx, maxops):
    c = cfg("PidfileCases", maxops=maxops, maxcrash=1, hist="op", props=False, constraints=("Emit",), view=False)
    r = tlc.run("PidfileCases", c, name="PidfileCases", workers=1, timeout=1500)
    hs = []
    for ln in r.prints:
        if ln.startswith('"['):
            hs.append(json.loads(json.loads(ln)))
    ctx.coverage["enumerated_histories"] = {"max_ops": maxops, "histories": len(hs), "states": r.distinct}
    return hs


# ---------------------------------------------------------------------------------------------
# (P)
# ---------------------------------------------------------------------------------------------

def pre_class(ev):
    me = ev["i"]
    tgt = ev["to"] if ev["k"] in ("rename", "reload") else ev["from"]
    c = ev["opre"].get(tgt, 0)
    n = c if 1 <= c <= 5 else c - 10 if 11 <= c <= 15 else 0
    if c == 0:
        return "absent"
    if n == 0:
        return "empty" if c == -1 else "junk"
    if n == me:
        return "own"
    if n in ev["al0"]:
        return "live-foreign-eperm" if n == 4 else "live-foreign"
    return "dead"


def judge(ctx, traces, metas):
    clean = [{"ev": [{k: v for k, v in e.items() if k not in ("raw", "exc")} for e in t]} for t in traces]
    verdicts, stats = tlc.validate_batch("PidfileTrace", "PidfileTrace.cfg", clean, name="PidfileTrace_C17",
                                         chunk=3000)
    ctx.add_traces(len(traces), stats)
    ndrift = 0
    for t, m, (v, step) in zip(traces, metas, verdicts):
        if v == "ok":
            continue
        ev = t[step - 1] if 0 < step <= len(t) else t[-1]
        if v.startswith("drift:"):
            ndrift += 1
            if ndrift <= 5:
                ctx.note_drift("code -> spec: %s at event %d of a %s history (%s %s by %s)"
                               % (v, step, m["src"], ev.get("k"), ev.get("s"), ev.get("i")))
            continue
        crash = any(e["e"] == "crash" for e in t[:step])
        if v in ("NeverPartialContent",):
            sig = "C17/%s/op=%s,step=%s" % (v, ev["k"], ev["s"])
        elif v in ("RefusesLiveForeign", "TakesOverStale"):
            sig = "C17/%s/op=%s,target=%s" % (v, ev["k"], pre_class(ev))
        elif v == "RenameMoves":
            sig = "C17/%s/op=%s" % (v, ev["k"])
        else:
            sig = "C17/%s/op=%s,step=%s" % (v, ev["k"], ev["s"])
        ops = [(e["i"], e["k"], e["to"], e.get("fin")) if e["e"] == "start" else (e["e"], e.get("x"), e.get("c"))
               for e in t[:step] if e["e"] in ("start", "foreign", "die", "crash")]
        ctx.violation(sig, "%s: instance %d, %s, at system call %s (before %s, right after %s, then %s)%s; "
                      "history %s" % (v, ev["i"], ev["k"], ev["s"], ev["pre"], ev["mid"],
                                      {x: ev["st"][x] for x in "pq"}, " with a crash" if crash else "", ops),
                      {"trace": t[:step], "meta": m, "verdict": v, "step": step})
    ctx.coverage["code_to_spec_drift"] = ndrift


# ---------------------------------------------------------------------------------------------

def toctou_demo(ctx):
    """replay the TOCTOU window the exploratory model finds (foreign overwrite between the ownership
    read and os.unlink) on the real class -- an observation, never a verdict"""
    w = drv.World(os.path.join(SCRATCH, "toctou"))
    w.run_op(1, "create")
    w.run_op(1, "unlink", hooks={1: lambda wd: wd.foreign("p", 3)})
    gone = w.files()["p"] == 0
    ctx.notes.append("TOCTOU replay on the real Pidfile: a.create; a.unlink with a foreign live pid written "
                     "between a's read and os.unlink -> foreign file %s (outside C17's operation-level quantifier)"
                     % ("DELETED" if gone else "kept"))
    ctx.coverage["toctou_replayed_on_code"] = gone


def concurrent_creates(ctx):
    """two instances inside create() on one path at the same time: every interleaving of their system calls, and
    one of them dying before any of its calls (drivers/pidfile_conc.py); judged by specs/PidfileConcTrace.tla"""
    from drivers import pidfile_conc as pc
    rng = ctx.rng
    scheds = list(pc.schedules(6, 6))
    runs = [(s, None) for s in scheds]
    kills = [(who, k) for who in (1, 2) for k in range(0, 7)]
    for s in (rng.sample(scheds, 300) if ctx.quick else scheds):
        for kill in (rng.sample(kills, 2) if ctx.quick else kills):
            runs.append((s, kill))
    traces, metas = [], []
    root = os.path.join(SCRATCH, "conc")
    for s, kill in runs:
        ev = pc.run(root, s, kill)
        traces.append({"ev": ev})
        metas.append({"schedule": "".join(map(str, s)), "kill": kill})
    verdicts, stats = tlc.validate_batch("PidfileConcTrace", "PidfileConcTrace.cfg", traces, name="PidfileConcTrace_C17", chunk=4000)
    ctx.add_traces(len(traces), stats)
    ctx.coverage["concurrent_create_interleavings"] = len(traces)
    for t, m, (v, step) in zip(traces, metas, verdicts):
        if v == "ok":
            continue
        e = t["ev"][step - 1]
        ctx.violation("C17/%s/concurrent-create/at=%s" % (v, e.get("s") or e["e"]),
                      "%s: two instances in create() at once, schedule %s kill=%s: after %s of instance %s the path shows %s"
                      % (v, m["schedule"], m["kill"], e.get("s"), e["who"], e["p"]), {"trace": t, "meta": m})


def kernel_crashes(ctx):
    """Pidfile.create() in a real child process killed on entering its n-th system call of each kind (strace fault
    injection), with the pid directory on the same and on another file system than the temporary directory; fresh path
    and stale path.  Judged by specs/PidfileConcTrace.tla (content classes: 0 absent, 1 the creator's complete pid,
    2 the stale owner's complete pid, anything else is partial content)."""
    from drivers import pidfile_kernel as pk
    if not pk.available():
        ctx.assumptions.append("strace / /dev/shm not available: kernel-level crash points skipped")
        return
    calls = pk.CALLS.split(",")
    places = [("/dev/shm/verif_pk_%d" % os.getpid(), os.path.join(pk.SCRATCH, "tmp"), "other-fs"),
              (os.path.join(pk.SCRATCH, "piddir"), os.path.join(pk.SCRATCH, "tmp"), "same-fs")]
    jobs = [(c, n, st, pl) for pl in places for c in calls for n in ((1, 2, 3) if ctx.quick else (1, 2, 3, 4, 5)) for st in (False, True)]
    # the configured path is a symbolic link (to a stale pid file, or dangling)
    jobs += [(c, n, st, places[1]) for c in calls for n in ((1, 2) if ctx.quick else (1, 2, 3, 4)) for st in ("link", "dangling")]
    with ThreadPoolExecutor(max_workers=8) as ex:
        res = list(ex.map(lambda j: pk.run(j[0], j[1], j[3][0], j[3][1], j[2]), jobs))
    import shutil
    shutil.rmtree(places[0][0], ignore_errors=True)
    traces, metas = [], []
    for j, r in zip(jobs, res):
        if not r["killed"]:
            continue
        traces.append({"ev": [{"e": "crash", "who": 1, "s": "%s#%d" % (j[0], j[1]), "p": r["cls"]}]})
        metas.append({"call": j[0], "n": j[1], "stale": j[2], "place": j[3][2], "raw": r["raw"]})
    if not traces:
        raise RuntimeError("strace fault injection killed no child: kernel-level crash points not exercised")
    verdicts, stats = tlc.validate_batch("PidfileConcTrace", "PidfileConcTrace.cfg", traces, name="PidfileKernel_C17")
    ctx.add_traces(len(traces), stats)
    ctx.coverage["kernel_level_crash_points"] = {"runs": len(jobs), "killed": len(traces),
                                                 "calls_hit": sorted(set(m["call"] for m in metas))}
    for t, m, (v, step) in zip(traces, metas, verdicts):
        if v == "ok":
            continue
        ctx.violation("C17/%s/kernel-crash/%s,%s" % (v, m["place"], {True: "stale", False: "fresh"}.get(m["stale"], "symlink-" + str(m["stale"]))),
                      "%s: create() killed on entering %s #%d (%s, pid directory on %s): the path holds %r"
                      % (v, m["call"], m["n"], "stale file" if m["stale"] else "fresh path", m["place"], m["raw"]),
                      {"trace": t, "meta": m})


def c17(ctx):
    rng = ctx.rng
    os.makedirs(SCRATCH, exist_ok=True)
    with ThreadPoolExecutor(max_workers=3) as ex:
        fdesign = ex.submit(design, ctx)
        fsim = ex.submit(simulate_histories, ctx, 150 if ctx.quick else 1500, 70)
        fenum = ex.submit(enumerate_histories, ctx, 2 if ctx.quick else 3)
        sims = fsim.result()
        enum = fenum.result()
        # spec -> code
        traces, metas = [], []
        ndrift = 0
        for src, hs in (("tlc-simulate", sims), ("tlc-enumeration", enum)):
            for n, h in enumerate(hs):
                w, drift = replay_history(h, os.path.join(SCRATCH, "replay"))
                traces.append(w.events)
                metas.append({"src": src, "n": n})
                if drift:
                    ndrift += 1
                    if ndrift <= 5:
                        ctx.note_drift("spec -> code (%s #%d): %s" % (src, n, drift))
        ctx.coverage["spec_to_code"] = {"simulated_behaviours": len(sims), "enumerated_histories": len(enum),
                                       "drift": ndrift}
        # code -> spec
        nrand = 1200 if ctx.quick else 12000
        for n in range(nrand):
            seed = rng.randrange(1 << 30)
            w = drv.random_history(random.Random(seed), os.path.join(SCRATCH, "random"),
                                   nops=rng.choice((5, 7, 9)))
            traces.append(w.events)
            metas.append({"src": "random", "seed": seed})
        ctx.coverage["random_histories"] = nrand
        ctx.coverage["system_calls_observed"] = sum(1 for t in traces for e in t if e["e"] == "sys")
        ctx.coverage["crashes_injected"] = sum(1 for t in traces for e in t if e["e"] == "crash")
        judge(ctx, traces, metas)
        concurrent_creates(ctx)
        kernel_crashes(ctx)
        from props import pidfile_real
        pidfile_real.real_side(ctx)
        toctou_demo(ctx)
        for t in traces[:2]:
            ctx.sample([{k: e[k] for k in ("e", "i", "k", "to", "s", "fin", "x", "c", "st")} for e in t[:12]])
        fdesign.result()
    ctx.coverage["rule"] = ("TLC: every sequence of <= %d operations {create, validate, unlink, rename, reload} "
                            "of two instances + foreign overwrite + process death on two names, a crash before "
                            "every system call of create; traces: TLC behaviours and enumerated histories replayed "
                            "into the real Pidfile + seeded random histories, every system call judged"
                            % (6 if ctx.quick else 7))
    ctx.assumptions += [
        "instances are simulated processes: os.getpid / os.kill(pid, 0) are answered from a process table "
        "(alive same user, alive other user -> EPERM, dead -> ESRCH); the file system is real",
        "domain of histories: a master whose create() raised only unlinks and exits; rename() is called only "
        "after a create() that returned (the arbiter's call sites); the foreign writer never writes the pid of "
        "a running instance (pid reuse is explored separately, notes only: DESIGN O3)",
        "reload = unlink + new Pidfile object + create, transcribed from arbiter.py 471-478",
        "a crash is modelled between system calls, plus a short os.write followed by death"]


def replay(ctx, data):
    case = data.get("case", {})
    if isinstance(case, dict) and isinstance(case.get("meta"), dict) and "schedule" in case["meta"]:
        from drivers import pidfile_conc as pc
        m = case["meta"]
        ev = pc.run(os.path.join(SCRATCH, "conc_replay"), [int(ch) for ch in m["schedule"]], tuple(m["kill"]) if m["kill"] else None)
        for e in ev:
            print("  ", e)
        verdicts, _ = tlc.validate_batch("PidfileConcTrace", "PidfileConcTrace.cfg", [{"ev": ev}], name="PidfileConcTrace_replay")
        print("verdict:", verdicts[0])
        return 1 if verdicts[0][0] != "ok" else 0
    if isinstance(case, dict) and isinstance(case.get("meta"), dict) and "wk" in case["meta"]:
        verdicts, _ = tlc.validate_batch("PidfileRealTrace", "PidfileRealTrace.cfg", [case["trace"]], name="PidfileRealTrace_replay")
        print("verdict of the recorded real-process trace:", verdicts[0])
        return 1 if verdicts[0][0] != "ok" else 0
    case = data["case"]
    t = case["trace"]
    print("replaying %s" % data["signature"])
    w = drv.World(os.path.join(SCRATCH, "replay_cli"))
    # re-execute the same history on the current tree
    i = 0
    while i < len(t):
        e = t[i]
        if e["e"] == "foreign":
            w.foreign(e["x"], e["c"])
        elif e["e"] == "die":
            w.die(e["c"])
        elif e["e"] == "start":
            plan = None
            for f in t[i + 1:]:
                if f["e"] == "start":
                    break
                if f["e"] == "crash" and f["i"] == e["i"]:
                    plan = ("name", f["s"])
            fin, rt, evs = w.run_op(e["i"], e["k"], e["to"], plan=plan)
            print("  %s(%s) by %d -> %s; files %s" % (e["k"], e["to"], e["i"], fin, w.files()))
        i += 1
    clean = [{"ev": [{k: v for k, v in e.items() if k not in ("raw", "exc")} for e in w.events]}]
    verdicts, _ = tlc.validate_batch("PidfileTrace", "PidfileTrace.cfg", clean, name="PidfileTrace_replay")
    print("verdict:", verdicts[0])
    if verdicts[0][0] != "ok" and not verdicts[0][0].startswith("drift:"):
        print("VIOLATION property=%s replay=%s" % (data["property"], "(replayed)"))
        return 1
    return 0


CHECKS = {"C17": c17}
