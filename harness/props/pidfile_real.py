"""C17 on real processes: the master's pid file through the life of its forked workers (they inherit the Pidfile
object) and against a second master on the same path.  Judged by TLC against specs/PidfileRealTrace.tla."""
import os
import signal
import subprocess
import time

import tlc
from drivers import realproc as rp


def run_real(wk):
    s = rp.Server(wk, workers=2, threads=2 if wk == "gthread" else None, pidfile=True,
                  args=["--graceful-timeout", "2", "--max-requests", "6"], name="c17")
    ev = []
    try:
        s.start()
        s.wait_booted(2)

        def chk(after):
            alive = rp.proc_state(s.pid) not in (None, "Z")
            try:
                with open(s.pidfile) as f:
                    txt = f.read()
                exists = True
            except OSError:
                txt, exists = "", False
            ev.append({"e": "chk", "after": after, "master_alive": bool(alive), "exists": exists,
                       "names_master": txt.strip() == str(s.pid)})
        chk("start")
        s.signal(signal.SIGTTOU)                       # a worker is asked to stop and exits
        time.sleep(1.5)
        chk("ttou")
        s.signal(signal.SIGTTIN)
        time.sleep(0.8)
        ws = s.workers()
        if ws:
            os.kill(ws[0], signal.SIGKILL)             # a worker is killed
        time.sleep(1.5)
        chk("worker-killed")
        if s.workers():
            os.kill(s.workers()[0], signal.SIGTERM)    # a worker is told to stop directly
        time.sleep(1.5)
        chk("worker-term")
        for _ in range(14):                            # workers recycled by max_requests
            try:
                s.get("/pid", timeout=3)
            except OSError:
                pass
        time.sleep(1.5)
        chk("max-requests")
        s.signal(signal.SIGHUP)                        # all workers replaced
        time.sleep(2.5)
        chk("hup")
        # a second master on the same pid file must refuse to start
        cmd = list(s.cmd)
        i = cmd.index("-b")
        cmd[i + 1] = "127.0.0.1:%d" % rp.free_port()
        p2 = subprocess.Popen(cmd, cwd=rp.REPO, env=s.env, stdout=subprocess.DEVNULL, stderr=subprocess.DEVNULL)
        try:
            rc = p2.wait(6)
        except subprocess.TimeoutExpired:
            rc = None
            for c in rp.children_of(p2.pid):
                os.kill(c, signal.SIGKILL)
            p2.kill()
            p2.wait(5)
        ev.append({"e": "second", "started": rc is None})
        chk("second-master")
        s.signal(signal.SIGTERM)
        s.wait_exit(8)
        chk("stopped")
        return {"wk": wk, "ev": ev}, {"wk": wk, "log": s.errlog()[-300:]}
    finally:
        s.cleanup()


def run_daemon_start(kind):
    """a daemonised start (--daemon --pid), good or failing after the detach ("bad-class": the worker class cannot be
    imported, the arbiter never gets as far as writing its pid file); the pid path is polled all along"""
    import re
    import threading
    s = rp.Server("sync" if kind == "good" else "no_such_module_zz.Worker", workers=1, pidfile=True, daemon=True,
                  args=["--graceful-timeout", "2"], name="c17d")
    seen = {"reads": 0, "partial": None}
    stop = threading.Event()

    def poll():
        while not stop.is_set():
            try:
                with open(s.pidfile, "rb") as f:
                    raw = f.read()
            except OSError:
                raw = None
            seen["reads"] += 1
            if raw is not None and not re.fullmatch(rb"[0-9]+\n", raw) and seen["partial"] is None:
                seen["partial"] = raw[:40].decode("latin-1")
    th = threading.Thread(target=poll, daemon=True)
    th.start()
    ev = []
    try:
        if kind == "good":
            s.start()
            s.wait_booted(1)
        else:
            p = subprocess.Popen(s.cmd, cwd=s.cwd, env=s.env, stdout=subprocess.DEVNULL, stderr=subprocess.DEVNULL)
            p.wait(15)
            time.sleep(2.5)
        stop.set()
        th.join(5)
        ev.append({"e": "watch", "after": "daemon-start-" + kind, "partial": seen["partial"] is not None})
        if kind != "good":
            # one more look once everything has settled
            try:
                with open(s.pidfile, "rb") as f:
                    raw = f.read()
            except OSError:
                raw = None
            ev.append({"e": "watch", "after": "daemon-start-failed", "partial": raw is not None and not re.fullmatch(rb"[0-9]+\n", raw)})
        else:
            s.signal(signal.SIGTERM)
            t0 = time.time()
            while time.time() - t0 < 8 and rp.proc_state(s.pid) not in (None, "Z"):
                time.sleep(0.05)
        return {"wk": "daemon-" + kind, "ev": ev}, {"wk": "daemon-" + kind, "reads": seen["reads"], "partial": seen["partial"],
                                                    "log": s.errlog()[-300:]}
    finally:
        stop.set()
        if kind != "good":
            for pid in rp.pids_matching(s.cfgfile):
                try:
                    os.kill(pid, signal.SIGKILL)
                except OSError:
                    pass
        s.cleanup()


def run_unreadable():
    """an unprivileged user starts a master on a pid file it cannot read (mode 000, owned by root) that names a live
    process, in a directory it may write to: the file must keep naming its owner"""
    import shutil
    import sys
    import tempfile
    d = tempfile.mkdtemp(prefix="c17u_", dir=rp._scratch())
    try:
        os.chmod(d, 0o777)
        for up in (os.path.dirname(d), os.path.dirname(os.path.dirname(d))):
            try:
                os.chmod(up, os.stat(up).st_mode | 0o055)
            except OSError:
                pass
        path = os.path.join(d, "g.pid")
        owner = os.getpid()                      # a live process the unprivileged user may not signal
        with open(path, "w") as f:
            f.write("%d\n" % owner)
        os.chmod(path, 0)
        code = ("import os, sys\nsys.path.insert(0, %r)\nimport gunicorn.pidfile as gp\nos.setgroups([])\nos.setgid(65534)\nos.setuid(65534)\n"
                "try:\n    gp.Pidfile(%r).create(os.getpid())\n    print('created')\nexcept BaseException as e:\n    print('refused', type(e).__name__)\n"
                % (os.environ.get("VERIF_REPO", "/repo"), path))
        p = subprocess.run([sys.executable, "-B", "-c", code], capture_output=True, text=True, timeout=30)
        try:
            with open(path) as f:
                txt = f.read()
            exists = True
        except OSError:
            txt, exists = "", False
        ev = [{"e": "chk", "after": "unprivileged-create-on-unreadable-file", "master_alive": True, "exists": exists,
               "names_master": txt.strip() == str(owner)}]
        return {"wk": "unreadable", "ev": ev}, {"wk": "unreadable", "child": (p.stdout + p.stderr)[-300:], "log": ""}
    finally:
        shutil.rmtree(d, ignore_errors=True)


def run_hup_foreign_path(wk):
    """two masters X and Y with pid files of their own; X's configuration file is edited to name Y's pid file and X
    is sent HUP: Y's file must keep naming Y"""
    x = rp.Server(wk, workers=1, threads=2 if wk == "gthread" else None, args=["--graceful-timeout", "2"], name="c17x")
    y = rp.Server(wk, workers=1, threads=2 if wk == "gthread" else None, pidfile=True, args=["--graceful-timeout", "2"], name="c17y")
    ev = []
    try:
        xpid = os.path.join(x.dir, "x.pid")
        x.rewrite_config("pidfile = %r\n" % xpid)
        x.start()
        y.start()
        x.wait_booted(1)
        y.wait_booted(1)

        def chk(after):
            alive = rp.proc_state(y.pid) not in (None, "Z")
            try:
                with open(y.pidfile) as f:
                    txt = f.read()
                exists = True
            except OSError:
                txt, exists = "", False
            ev.append({"e": "chk", "after": after, "master_alive": bool(alive), "exists": exists, "names_master": txt.strip() == str(y.pid)})
        chk("two-masters")
        x.rewrite_config("pidfile = %r\n" % y.pidfile)
        x.signal(signal.SIGHUP)
        time.sleep(2.5)
        chk("hup-to-foreign-path")
        if rp.proc_state(x.pid) not in (None, "Z"):
            x.signal(signal.SIGTERM)
            x.wait_exit(8)
        chk("hup-to-foreign-path,other-master-stopped")
        return {"wk": wk, "ev": ev}, {"wk": "hup-foreign-" + wk, "log": x.errlog()[-300:]}
    finally:
        x.cleanup()
        y.cleanup()


def real_side(ctx):
    from props.reload_real import _parallel
    plan = ["sync", "gthread"] if ctx.quick else ["sync", "gthread", "gevent", "eventlet"]
    plan += ["@good", "@bad-class", "!hup:sync"] + ([] if ctx.quick else ["!hup:gthread"]) + (["!unreadable"] if os.geteuid() == 0 else [])

    def run(a, i):
        if a.startswith("@"):
            return run_daemon_start(a[1:])
        if a == "!unreadable":
            return run_unreadable()
        if a.startswith("!hup:"):
            return run_hup_foreign_path(a[5:])
        return run_real(a)
    results = _parallel(plan, run, par=8)
    traces = [r[0] for r in results]
    metas = [r[1] for r in results]
    verdicts, stats = tlc.validate_batch("PidfileRealTrace", "PidfileRealTrace.cfg", traces, name="PidfileRealTrace_C17")
    ctx.add_traces(len(traces), stats)
    tlc.repeat_failing(ctx, "PidfileRealTrace", "PidfileRealTrace.cfg", traces, metas, verdicts, range(len(plan)),
                       lambda k: run(plan[k], k), "PidfileRealTrace_C17")
    ctx.coverage["real_process_masters"] = len(traces)
    for t, m, (v, step) in zip(traces, metas, verdicts):
        if v == "ok":
            continue
        e = t["ev"][step - 1]
        ctx.violation("C17/%s/real/after=%s" % (v, e.get("after", "second-master")), "%s: wk=%s event=%s" % (v, m["wk"], e),
                      {"trace": t, "meta": m})
    ctx.sample({"real": metas[0]["wk"], "events": traces[0]["ev"][:4]})
    ctx.assumptions += ["real masters: 2 workers, pid file read 1.5 s after each event"]
