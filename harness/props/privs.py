"""C20 -- workers always run with exactly the configured user and group.

(D) specs/Privs.tla: Linux credential semantics + the path of every worker (heartbeat file chown in
    the master, fork, set_owner_process steps, load of application code, first heartbeat) over the
    complete product master {root, non-root} x user {unset, same, other, 0} x group {unset, same,
    other, 0} x initgroups x passwd entry.  Dev = {} (intended design) must satisfy
    WorkerCredsExact, BootErrorNotSilent, PermittedDropSucceeds, MasterKeepsIdentity,
    HeartbeatWritable; every other Dev must break a clause.
(C) the product is emitted by TLC (specs/PrivsCases.tla) with the outcome the model of the current
    tree predicts; each case runs the REAL Worker.__init__ / Worker.init_process /
    util.set_owner_process (a) on a recording fake kernel with the model's semantics and (b) in real
    forked processes with real ids (root, www-data, nobody); outcome, calls and credentials are
    compared with the prediction (mismatch = drift).  (c) real `python -m gunicorn` servers:
    /proc/<pid>/status of master and workers for initial, respawned (kill -9) and HUP generations.
(P) specs/PrivsTrace.tla judges every record against the clauses of C20 only.
"""
import json
import os
import subprocess
import sys
from concurrent.futures import ThreadPoolExecutor

import tlc
from drivers import privs as drv

OUT = tlc.OUT
INV = ["WorkerCredsExact", "BootErrorNotSilent", "PermittedDropSucceeds", "MasterKeepsIdentity", "HeartbeatWritable"]
ASIS = set()   # InitSkipsSetgid, UsernameUnbound, ZeroUnset: fixed in /repo (f8cb1e6)
FIXED_DEVS = {"InitSkipsSetgid", "UsernameUnbound", "ZeroUnset"}
MUTANT_DEVS = {"SwallowEperm": "BootErrorNotSilent", "UidBeforeGid": "PermittedDropSucceeds", "DropAfterLoad": "WorkerCredsExact",
               "NoTmpChown": "HeartbeatWritable"}

HIGH_IDS = (4294967293, 4294967294)
REAL_IDS = {"root": (0, 0), "other": (33, 33), "user": (65534, 65534)}
UNKNOWN_UID = 4242


def model_cfg(label, dev):
    path = os.path.join(OUT, "cfg", "Privs_%s.cfg" % label)
    os.makedirs(os.path.dirname(path), exist_ok=True)
    return tlc.write_cfg(path, spec="Spec", constants={"Dev": set(dev)}, invariants=INV, constraints=["LevelBound"])


def design(ctx):
    def one(job):
        label, dev = job
        return label, dev, tlc.run("Privs", model_cfg(label, dev), name="Privs_" + label, workers=2,
                                   extra=["-continue"], timeout=600)
    jobs = [("design", set()), ("asis", FIXED_DEVS)] + [("dev_" + d, {d}) for d in MUTANT_DEVS]
    with ThreadPoolExecutor(max_workers=5) as ex:
        res = list(ex.map(one, jobs))
    for label, dev, r in res:
        got = sorted(set(r.violated))
        if label == "design":
            if not r.ok:
                raise tlc.TLCError("Privs design (Dev = {}) violates %s" % got)
            ctx.add_model(r, "complete product, intended design")
            ctx.coverage["exhaustive"] = True
        elif label == "asis":
            ctx.coverage["model_with_repaired_deviations_violates"] = got
        else:
            d = label[4:]
            ok = MUTANT_DEVS[d] in got
            ctx.coverage.setdefault("deviation_runs", []).append({"dev": d, "violated": got, "reproduced": ok})
            if not ok:
                raise tlc.TLCError("deviation %s does not break %s (got %s)" % (d, MUTANT_DEVS[d], got))


def emit_cases():
    cfgp = os.path.join(OUT, "cfg", "PrivsCases.cfg")
    tlc.write_cfg(cfgp, spec="CSpec", constants={"Dev": ASIS})
    outp = os.path.join(OUT, "privs_cases.ndjson")
    if os.path.exists(outp):
        os.unlink(outp)
    tlc.run("PrivsCases", cfgp, name="PrivsCases", workers=1, timeout=600, env={"CASES_OUT": outp})
    with open(outp) as f:
        return [json.loads(ln) for ln in f if ln.strip()]


# ---------------------------------------------------------------------------------------------

def real_spec(row, n):
    """abstract case -> concrete ids / spellings for a real forked run"""
    import grp
    import pwd
    c = row["case"]
    mu, mg = REAL_IDS["root"] if c["master"] == "root" else (0, REAL_IDS["other"][1]) if c["master"] == "rootsplit" else REAL_IDS["user"]

    def ident(t, which):
        if t in ("unset", "same"):
            return (mu, mg)[which]
        if t == "zero":
            return 0
        return REAL_IDS["other"][which]
    uid, gid = ident(c["user"], 0), ident(c["group"], 1)
    if c["user"] == "other" and not row["known"]:
        uid = UNKNOWN_UID
    try:
        name = pwd.getpwuid(uid).pw_name
        ug = sorted(os.getgrouplist(name, gid))
    except KeyError:
        name, ug = None, []
    spec = {"case": c, "uid": uid, "gid": gid, "ug": ug, "known": row["known"], "master_uid": mu, "master_gid": mg}
    # spellings (C20's quantifier): numeric id, numeric string, name -- through the real validators
    k = n % 3
    if k == 1:
        spec["user_spelling"], spec["group_spelling"] = str(uid), str(gid)
    elif k == 2 and name is not None:
        spec["user_spelling"], spec["group_spelling"] = name, grp.getgrgid(gid).gr_name
    if c["user"] == "unset":
        spec["user_spelling"] = None if mu == 0 else mu      # None -> validate_user -> os.geteuid()
    if c["group"] == "unset":
        spec["group_spelling"] = None if mg == 0 else mg
    return spec


def to_abstract(rec):
    """real ids -> the model's ids for the (C) comparison (end + id triples only)"""
    return rec


def call_driver(mode, arg, timeout=600):
    env = dict(os.environ, VERIF_REPO=os.environ.get("VERIF_REPO", "/repo"), VERIF_WTMP_TAG=str(os.getpid()))
    p = subprocess.run([sys.executable, "-B", os.path.join(os.path.dirname(drv.__file__), "privs.py"), mode],
                       input=json.dumps(arg), capture_output=True, text=True, timeout=timeout, env=env,
                       cwd="/")      # (a directory every user can stand in: the masters of some cases are not root)
    if p.returncode != 0 or not p.stdout.strip():
        raise RuntimeError("privs driver %s failed: %s" % (mode, p.stderr[-2000:]))
    return json.loads(p.stdout.strip().splitlines()[-1])


def cred_from_status(st):
    u, g = st["Uid"], st["Gid"]
    return {"ruid": u[0], "euid": u[1], "suid": u[2], "rgid": g[0], "egid": g[1], "sgid": g[2],
            "groups": sorted(st.get("Groups", []))}


def server_records(obs):
    import pwd
    spec = obs["spec"]
    uid = spec["uid"]
    gid = spec["gid"]
    try:
        ug = sorted(os.getgrouplist(pwd.getpwuid(uid).pw_name, gid))
    except KeyError:
        ug = []
    atload = {a["pid"]: a for a in obs.get("atload", [])}
    ms = [m for m in obs["master"] if m]
    recs = []
    for g in obs["gens"]:
        if not g["status"] or not ms:
            continue
        w = cred_from_status(g["status"])
        al = atload.get(g["pid"])
        at = ({"ruid": al["res"][0], "euid": al["res"][1], "suid": al["res"][2], "rgid": al["res"][3],
               "egid": al["res"][4], "sgid": al["res"][5], "groups": al["groups"]} if al else w)
        recs.append({"mode": "server", "gen": g["kind"], "tag": spec["tag"],
                     "case": {"master": "root", "cap": "all", "user": "other" if spec.get("user") is not None else "unset",
                              "group": "other" if spec.get("group") is not None else "unset",
                              "init": bool(spec.get("initgroups")), "known": True},
                     "uid": uid, "gid": gid, "ug": ug, "known": True,
                     "m0": cred_from_status(ms[0]), "m1": cred_from_status(ms[-1]), "end": "running",
                     "loaded": True, "atload": at, "w": w, "beat": True, "eperm": False, "capless": False, "calls": [],
                     "sock": obs.get("sock") or [], "exc": ""})
    return recs


def symptom(rec):
    x = rec["atload"] if rec.get("loaded") else rec["w"]
    if rec["end"] == "running":
        y = rec["w"]
        x = x if wrong_parts(rec, x) else y
    return wrong_parts(rec, x)


def wrong_parts(rec, x):
    parts = []
    if (x["ruid"], x["euid"], x["suid"]) != (rec["uid"],) * 3:
        parts.append("uid")
    if (x["rgid"], x["egid"], x["sgid"]) != (rec["gid"],) * 3:
        parts.append("gid")
    c = rec["case"]
    if c["init"] and rec["known"] and c["user"] != "unset" and set(x["groups"]) != set(rec["ug"]) | {rec["gid"]}:
        parts.append("groups")
    return parts


def small_ids(e):
    """TLC's integers are 32-bit signed: a record that mentions an id >= 2**31 is renamed injectively (0 stays 0,
    the other ids are numbered in ascending order) -- the monitor only compares ids and tests for 0"""
    ids = set()

    def walk(x, f):
        if isinstance(x, bool):
            return x
        if isinstance(x, int):
            return f(x)
        if isinstance(x, list):
            return [walk(y, f) for y in x]
        if isinstance(x, dict):
            return {k: (walk(v, f) if k != "calls" else v) for k, v in x.items()}
        return x
    walk({k: v for k, v in e.items() if k != "case"}, lambda n: ids.add(n) or n)
    if not any(n >= 2 ** 31 for n in ids):
        return e
    ren = {n: k + 1 for k, n in enumerate(sorted(ids - {0}))}
    ren[0] = 0
    out = walk({k: v for k, v in e.items() if k != "case"}, lambda n: ren[n])
    out["case"] = e["case"]
    return out


def signature(v, rec):
    c = rec["case"]
    ig = "initgroups=%s" % ("on" if c["init"] else "off")
    if rec.get("variant"):
        ig += "," + rec["variant"]
    if v in ("WorkerCredsExact", "BootErrorNotSilent", "DropBeforeLoad"):
        parts = symptom(rec)
        what = "+".join(parts) + ("-not-set" if parts == ["groups"] else "-not-dropped")
        extra = ""
        if rec["gid"] == 0 and "groups" in parts:
            extra = ",gid=0"
        if c["master"] != "root":
            extra += ",master=nonroot" if c["master"] == "user" else ",master=" + c["master"]
        if str(rec.get("tag", "")).startswith("cwdconf") and rec.get("gen") == "usr2":
            # (user / group / chdir given only by the default ./gunicorn.conf.py of the start directory; the generation
            # started by the upgraded master)
            extra += ",gen=usr2,settings=implicit-conf-file+chdir"
        return "C20/%s/%s,%s%s" % (v, ig, what, extra)
    if v == "PermittedDropSucceeds":
        return "C20/%s/%s,exc=%s,user=%s" % (v, ig, rec.get("exc") or "?",
                                              "unset-or-root" if rec["uid"] == rec["m0"]["euid"] else "other")
    return "C20/%s/%s" % (v, ig)


def judge(ctx, traces):
    clean = []
    for t in traces:
        evs = []
        for r in t:
            e = {k: r[k] for k in ("mode", "case", "uid", "gid", "ug", "known", "m0", "m1", "end", "loaded",
                                   "atload", "w", "beat", "eperm", "calls")}
            e["sock"] = r.get("sock") or []
            e["capless"] = bool(r.get("capless"))
            evs.append(small_ids(e))
        clean.append({"ev": evs})
    verdicts, stats = tlc.validate_batch("PrivsTrace", "PrivsTrace.cfg", clean, name="PrivsTrace_C20")
    ctx.add_traces(sum(len(t) for t in traces), stats)
    ndrift = 0
    # representative of a signature: prefer real processes over the fake kernel, a real drop over root -> root
    order = sorted(range(len(traces)), key=lambda n: ({"server": 0, "real": 1, "fake": 2}[traces[n][0]["mode"]],
                                                      traces[n][0]["case"]["user"] != "other", n))
    for n in order:
        t, (v, step) = traces[n], verdicts[n]
        if v == "ok":
            continue
        rec = t[step - 1] if 0 < step <= len(t) else t[-1]
        if v.startswith("drift:"):
            ndrift += 1
            if ndrift <= 6:
                ctx.note_drift("%s mode, case %s: %s (observed end=%s exc=%s calls=%s)"
                               % (rec["mode"], rec["case"], v, rec["end"], rec.get("exc"), rec.get("calls")))
            continue
        sig = signature(v, rec)
        x = rec["atload"] if rec.get("loaded") else rec["w"]
        ctx.violation(sig, "%s [%s%s]: master %s, cfg uid=%s gid=%s initgroups=%s -> worker %s with "
                      "resuid=%s resgid=%s groups=%s (expected all %s / %s%s)%s"
                      % (v, rec["mode"], "/" + rec["gen"] if rec.get("gen") else "", rec["m0"]["euid"], rec["uid"],
                         rec["gid"], rec["case"]["init"], rec["end"],
                         (x["ruid"], x["euid"], x["suid"]), (x["rgid"], x["egid"], x["sgid"]), x["groups"],
                         rec["uid"], rec["gid"],
                         ", groups %s" % sorted(set(rec["ug"]) | {rec["gid"]}) if rec["case"]["init"] else "",
                         " exc=%s" % rec["exc"] if rec.get("exc") else ""),
                      {"record": rec, "verdict": v})
    ctx.coverage["drift_records"] = ndrift


def c20(ctx):
    os.environ["VERIF_WTMP_TAG"] = str(os.getpid())
    try:
        _c20(ctx)
    finally:
        import shutil
        shutil.rmtree(drv.wtmp_dir(), ignore_errors=True)


def _c20(ctx):
    os.makedirs(drv.SCRATCH, exist_ok=True)
    os.chmod(drv.SCRATCH, 0o755)
    if os.geteuid() != 0:
        ctx.assumptions.append("not running as root: real-process bindings skipped")
    with ThreadPoolExecutor(max_workers=2) as ex:
        fd = ex.submit(design, ctx)
        rows = emit_cases()
        rows.sort(key=lambda r: json.dumps(r["case"], sort_keys=True))
        # (c) real servers run in the background while the in-process cases are played
        servers = [{"tag": "namesync", "user": "www-data", "group": "www-data", "uid": 33, "gid": 33,
                    "initgroups": False, "worker_class": "sync"},
                   {"tag": "badhup", "user": "www-data", "group": "www-data", "uid": 33, "gid": 33,
                    "initgroups": False, "worker_class": "sync", "badhup": True},
                   {"tag": "envusr2", "user": "nobody", "group": "nogroup", "uid": 65534, "gid": 65534,
                    "initgroups": False, "worker_class": "sync", "via_env": True, "usr2": True},
                   {"tag": "cwdconf", "user": "nobody", "group": "nogroup", "uid": 65534, "gid": 65534,
                    "initgroups": False, "worker_class": "sync", "cwdconf": True},
                   # the same deployment through a binary upgrade (USR2): the new master is exec'ed in the directory the
                   # file's chdir names, where there is no ./gunicorn.conf.py (recorded finding F31)
                   {"tag": "cwdconfusr2", "user": "nobody", "group": "nogroup", "uid": 65534, "gid": 65534,
                    "initgroups": False, "worker_class": "sync", "cwdconf": True, "usr2": True}]
        if not ctx.quick:
            servers += [
                {"tag": "initsync", "user": "www-data", "group": "www-data", "uid": 33, "gid": 33,
                 "initgroups": True, "worker_class": "sync"},
                {"tag": "numthread", "user": "33", "group": "33", "uid": 33, "gid": 33, "initgroups": False,
                 "worker_class": "gthread"},
                {"tag": "useronly", "user": "nobody", "group": None, "uid": 65534, "gid": 0,
                 "initgroups": False, "worker_class": "sync"},
                {"tag": "useronlyinit", "user": "nobody", "group": None, "uid": 65534, "gid": 0,
                 "initgroups": True, "worker_class": "gthread"},
                {"tag": "cliusr2", "user": "www-data", "group": "www-data", "uid": 33, "gid": 33,
                 "initgroups": True, "worker_class": "gthread", "usr2": True},
                {"tag": "claudeuser", "user": "claudeuser", "group": "nogroup", "uid": 1000, "gid": 65534,
                 "initgroups": False, "worker_class": "sync"},
            ]
        # the worker classes that override init_process (monkey patching before the generic set-up): what the application's
        # module-level code runs as is part of "the worker's whole life" - one of them in the quick tier, both in the thorough
        for wc in (("gevent",) if ctx.quick else ("gevent", "eventlet")):
            try:
                __import__(wc)
            except Exception:   # noqa
                continue
            servers.append({"tag": wc, "user": "www-data", "group": "33", "uid": 33, "gid": 33,
                            "initgroups": False, "worker_class": wc})
        fs = ex.submit(call_driver, "server", servers, 900) if os.geteuid() == 0 else None
        traces = []
        # (a) fake kernel: the complete product
        for row in rows:
            rec = drv.run_fake(row)
            rec["sock"] = []
            traces.append([rec])
            if row["case"].get("cap", "all") == "all":
                # the same with the worker timeout switched off (timeout = 0): the heartbeat file is still touched
                rec = drv.run_fake(dict(row, timeout=0))
                rec["sock"] = []
                traces.append([rec])

        ctx.coverage["fake_kernel_cases"] = len(rows)
        # (b) real forked processes: the complete product with real ids and spellings
        if os.geteuid() == 0:
            # (a missing capability is only played on the fake kernel)
            specs = [real_spec(row, n) for n, row in enumerate(r for r in rows if r["case"].get("cap", "all") == "all")]
            for n, sp in enumerate(list(specs)):
                if n % 4 == 0:
                    specs.append(dict(sp, timeout=0, variant="timeout=0"))
            # ids in the upper half of the 32-bit id space (no passwd entry), as a number and as a numeric string
            for sp in list(specs):
                c = sp["case"]
                if c["master"] == "root" and c["user"] == "other" and c["group"] == "other" and not sp["known"] \
                        and not sp.get("variant") and "user_spelling" not in sp:
                    for spell in (str, int):
                        specs.append(dict(sp, uid=HIGH_IDS[0], gid=HIGH_IDS[1], ug=[], user_spelling=spell(HIGH_IDS[0]),
                                          group_spelling=spell(HIGH_IDS[1]), variant="high-id-%s" % spell.__name__))
            recs = call_driver("real", specs)
            bad = [r for r in recs if r.get("end") == "harness-error"]
            if bad:
                raise RuntimeError("real-process harness error: %s" % bad[0])
            # unix socket ownership through the real UnixSocket.bind
            socks = call_driver("sock", [[33, 33], [65534, 33], [0, 0]])
            for r in recs:
                r["sock"] = []
            for (u, g), own in zip([[33, 33], [65534, 33], [0, 0]], socks):
                for r in recs:
                    if r["uid"] == u and r["gid"] == g and r["m0"]["euid"] == 0 and r["end"] == "running":
                        r["sock"] = own
                        break
            for r in recs:
                traces.append([r])
            ctx.coverage["real_process_cases"] = len(recs)
            ctx.coverage["unix_socket_owner_checks"] = dict(("%d:%d" % tuple(k), v) for k, v in
                                                            zip([[33, 33], [65534, 33], [0, 0]], socks))
            obs = fs.result()
            nserver = 0
            for o in obs:
                if o.get("error"):
                    ctx.notes.append("server run %s: %s; %s" % (o["spec"]["tag"], o["error"], o.get("errlog_tail", "")[-300:]))
                rs = server_records(o)
                kinds = sorted(set(r["gen"] for r in rs))
                if rs:
                    traces.append(rs)
                    nserver += len(rs)
                ctx.coverage.setdefault("server_runs", []).append(
                    {"tag": o["spec"]["tag"], "workers_observed": len(rs), "generations": kinds,
                     "app_load_records": len(o.get("atload", [])), "exit": o.get("exit")})
                if not o.get("error") and kinds != ["hup", "initial", "respawn"]:
                    ctx.notes.append("server run %s observed only generations %s" % (o["spec"]["tag"], kinds))
            ctx.coverage["server_worker_observations"] = nserver
        import shutil
        shutil.rmtree(drv.wtmp_dir(), ignore_errors=True)
        judge(ctx, traces)
        for t in traces[:1] + traces[len(rows):len(rows) + 1] + traces[-1:]:
            r = t[0]
            ctx.sample({k: r[k] for k in ("mode", "case", "uid", "gid", "end", "atload", "w", "calls", "exc") if k in r})
        fd.result()
    ctx.coverage["rule"] = ("TLC: complete product master x user x group x initgroups x passwd entry (128 cases) "
                            "through the worker start path; every case run on the real Worker.init_process / "
                            "set_owner_process with a fake kernel and in real forked processes; real gunicorn "
                            "servers for initial / respawned / HUP generations")
    ctx.assumptions += [
        "kernel semantics as in specs/Privs.tla (Linux setuid/setgid/initgroups, futimens ownership rule)",
        "supplementary groups are judged only with initgroups on and a configured, resolvable user",
        "the workers of a USR2-started master are observed in the server runs tagged *usr2",
        "real ids: root, www-data (33), nobody (65534), uid 4242 without passwd entry"]


def replay(ctx, data):
    rec = data["case"]["record"]
    print("replaying %s (%s mode)" % (data["signature"], rec["mode"]))
    if rec["mode"] == "fake":
        row = {"case": rec["case"], "uid": rec["uid"], "gid": rec["gid"], "ug": rec["ug"], "known": rec["known"],
               "m": rec["m0"]}
        new = drv.run_fake(row)
        new["sock"] = []
    elif rec["mode"] == "real":
        import grp   # noqa
        spec = {"case": rec["case"], "uid": rec["uid"], "gid": rec["gid"], "ug": rec["ug"], "known": rec["known"],
                "master_uid": rec["m0"]["euid"], "master_gid": rec["m0"]["egid"]}
        new = call_driver("real", [spec])[0]
        new["sock"] = []
    else:
        print("server observations are not replayed; re-run ./check C20 --tier thorough")
        return 0
    print("observed: end=%s exc=%s atload=%s w=%s" % (new["end"], new.get("exc"), new["atload"], new["w"]))
    e = {k: new[k] for k in ("mode", "case", "uid", "gid", "ug", "known", "m0", "m1", "end", "loaded", "atload",
                             "w", "beat", "eperm", "calls", "sock")}
    verdicts, _ = tlc.validate_batch("PrivsTrace", "PrivsTrace.cfg", [{"ev": [e]}], name="PrivsTrace_replay")
    print("verdict:", verdicts[0])
    if verdicts[0][0] != "ok" and not verdicts[0][0].startswith("drift:"):
        print("VIOLATION property=%s replay=%s" % (data["property"], "(replayed)"))
        return 1
    return 0


CHECKS = {"C20": c20}
