"""C03 / C04 / C10 / C11: the master side (specs/Arbiter.tla, the real Arbiter.run() on the simulated kernel,
props/arbiter.py) combined with the worker / client side on real processes and the in-process sync loop
(props/shutdown_real.py, props/reload_real.py, props/syncloop.py)."""
from props import arbiter, shutdown_real, reload_real, boot_real


def c03(ctx):
    import os
    # seeded random schedules of C03 also model the window between fork() and init_signals() in which a
    # TERM / QUIT sent to a worker is swallowed (the master has to ask again)
    os.environ["VERIF_BOOT_SWALLOW"] = "1"
    try:
        arbiter.CHECKS["C03"](ctx)
    finally:
        os.environ.pop("VERIF_BOOT_SWALLOW", None)
    # workers that cannot boot, on real processes (the simulated kernel's workers do not run the worker code)
    boot_real.boot_side(ctx)
    # the order of the server hooks (specs/Lifecycle.tla) followed on the hook log of real servers: start, TTIN / TTOU,
    # HUP, a killed, a hung and an interrupted worker, TERM (drift only: the hook order is not a listed property)
    from props import lifecycle
    lifecycle.design(ctx)
    lifecycle.inductive(ctx)
    lifecycle.follow(ctx)


def c04(ctx):
    arbiter.CHECKS["C04"](ctx)
    shutdown_real.worker_side(ctx)


def c10(ctx):
    arbiter.CHECKS["C10"](ctx)
    reload_real.reload_side(ctx)


def c11(ctx):
    arbiter.CHECKS["C11"](ctx)
    reload_real.timeout_side(ctx)


def replay(ctx, data):
    case = data.get("case", {})
    meta = case.get("meta", {}) if isinstance(case, dict) else {}
    if isinstance(meta, dict) and ("wk" in meta and ("phases" in meta or "scenario" in meta or "nhup" in meta)):
        import json
        import tlc
        mod = "ShutdownTrace" if "phases" in meta else "BootTrace" if "forks" in meta else \
            "TimeoutTrace" if "scenario" in meta else "ReloadTrace"
        print(json.dumps(meta)[:1500])
        verdicts, _ = tlc.validate_batch(mod, mod + ".cfg", [case["trace"]], name=mod + "_replay")
        print("verdict of the recorded real-process trace:", verdicts[0])
        return 1 if verdicts[0][0] != "ok" else 0
    return arbiter.replay(ctx, data)


CHECKS = {"C03": c03, "C04": c04, "C10": c10, "C11": c11}
