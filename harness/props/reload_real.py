"""C10 (HUP under load) and C11 (hung / healthy workers) on real processes.
Judged by TLC against specs/ReloadTrace.tla and specs/TimeoutTrace.tla."""
import os
import signal
import threading
import time

import tlc
from drivers import realproc as rp


# ---------------------------------------------------------------------------------------------
# C10

SLOWBOOT = 'def post_fork(server, worker):\n    import time\n    time.sleep(0.6)\n'


def run_reload(wk, nhup, new_workers, seed, bind="tcp", drop_env_last=False, relcfg=False, burst=False, ignsig=False):
    """drop_env_last: the configuration of the last HUP no longer has the raw_env line: the workers of the last generation
    run without the variable.  burst: the HUPs follow each other faster than a worker boots (a post_fork hook that takes
    0.6 s): a reload retires workers that the previous one has forked and that have not installed their handlers yet"""
    extra = SLOWBOOT if burst else ""
    gap = 0.25 if burst else 0.9
    cfg1 = 'workers = 2\nraw_env = ["VERIF_MARKER=gen0"]\n' + extra
    # "tcp2": a second listener; long requests go to the first one, the second one stays (almost) idle
    port2 = rp.free_port() if bind == "tcp2" else None
    s = rp.Server(wk, workers=2, threads=3 if wk == "gthread" else None, config=cfg1, bind="tcp" if bind == "tcp2" else bind,
                  args=["--graceful-timeout", "4", "--keep-alive", "1", "--timeout", "30"] +
                       (["-b", "127.0.0.1:%d" % port2] if port2 else []), name="c10", relcfg=relcfg, ignsig=ignsig)
    # -w on the command line would override the file: drop it
    i = s.cmd.index("-w")
    del s.cmd[i:i + 2]
    recs = []
    lock = threading.Lock()
    hups = []
    stop = threading.Event()
    try:
        s.start()
        initial = s.wait_booted(2)

        def client(path, pause, port=None):
            while not stop.is_set():
                t0 = time.time()
                rec = {"t0": t0, "path": path}
                try:
                    st, body, info = s.get(path, timeout=10, port=port)
                    pid, marker = rp.parse_ident(body)
                    rec.update(pid=pid, marker=marker)
                    if st == 200 and info["complete"]:
                        rec["outcome"] = "complete"
                    elif info["reset"]:
                        rec["outcome"] = "reset"
                    elif body:
                        rec["outcome"] = "truncated"
                    else:
                        rec["outcome"] = "nothing"
                except ConnectionRefusedError:
                    rec["outcome"] = "refused"
                except FileNotFoundError:
                    rec["outcome"] = "refused"
                except OSError:
                    rec["outcome"] = "reset"
                rec["t1"] = time.time()
                with lock:
                    recs.append(rec)
                time.sleep(pause)
        karecs = []

        def kaclient():
            # one persistent connection re-used across the reloads: the next request follows the previous response
            # well within the keep-alive time, a new connection is made only after the server has closed this one
            c = None
            while not stop.is_set():
                t0 = time.time()
                try:
                    if c is None:
                        c = s.connect(5)
                    st, body, info = s.get("/pid", timeout=10, sock=c, keepalive=True)
                    ok = st == 200 and info["complete"]
                    if ok:
                        karecs.append({"t0": t0, "marker": rp.parse_ident(body)[1], "pid": rp.parse_ident(body)[0]})
                    if not ok or info["headers"].get("connection", "").lower() == "close":
                        c.close()
                        c = None
                except OSError:
                    if c is not None:
                        c.close()
                    c = None
                time.sleep(0.25)
            if c is not None:
                c.close()
        ths = [threading.Thread(target=client, args=("/pid", 0.01), daemon=True),
               threading.Thread(target=client, args=("/pid", 0.02), daemon=True),
               threading.Thread(target=kaclient, daemon=True),
               threading.Thread(target=client, args=("/sleep?t=0.5", 0.01), daemon=True),
               threading.Thread(target=client, args=("/stream?n=3&d=0.15", 0.01), daemon=True)]
        if port2:
            ths[1] = threading.Thread(target=client, args=("/pid", 0.4, port2), daemon=True)
            ths.append(threading.Thread(target=client, args=("/sleep?t=1.6", 0.01), daemon=True))
        [t.start() for t in ths]
        time.sleep(0.6)
        want = 2
        for k in range(nhup):
            want = new_workers if k == nhup - 1 else 2 + (k % 2)
            if drop_env_last and k == nhup - 1:
                s.rewrite_config('workers = %d\n' % want + extra)
            elif want == 0:
                # the setting is removed from the file: the new configuration is the built-in default (1 worker)
                want = 1
                s.rewrite_config('raw_env = ["VERIF_MARKER=gen%d"]\n' % (k + 1) + extra)
            else:
                s.rewrite_config('workers = %d\nraw_env = ["VERIF_MARKER=gen%d"]\n' % (want, k + 1) + extra)
            hups.append(time.time())
            s.signal(signal.SIGHUP)
            time.sleep(gap)
        time.sleep(1.2 + (0.9 - gap) + (2.4 if burst else 0))
        stop.set()
        [t.join(12) for t in ths]
        # settle: old workers have at most graceful_timeout to finish
        time.sleep(0.5)
        deadline = time.time() + 6
        while time.time() < deadline and any(rp.proc_state(p) not in (None, "Z") for p in initial):
            time.sleep(0.1)
        alive = [p for p in s.workers() if rp.proc_state(p) not in (None, "Z")]
        old_alive = [p for p in alive if p in initial]
        final_marker = "-" if drop_env_last else "gen%d" % nhup
        # (a burst: workers forked just before the last HUP are asked to stop again at the master's next tick, after they booted)
        late = 3.0 if burst else 1.6
        settle_t = hups[-1] + 1.0
        tail = []
        for _ in range(6):
            try:
                st, body, info = s.get("/pid", timeout=5)
                tail.append(rp.parse_ident(body)[1])
            except OSError:
                recs.append({"t0": time.time(), "t1": time.time(), "path": "/pid", "outcome": "refused"})
                tail.append(None)
        ev = []
        for r in recs:
            inflight = any(r["t0"] + 0.25 < h < r["t1"] for h in hups) and r["path"] != "/pid"
            ev.append({"e": "req", "outcome": r["outcome"], "inflight_at_hup": bool(inflight)})
        ev.append({"e": "after", "old_alive": len(old_alive), "nworkers": len(alive), "want_workers": want,
                   "old_marker_seen": any(m != final_marker for m in tail) or
                                      any(r["marker"] != final_marker for r in karecs if r["t0"] > hups[-1] + late)})
        tr = {"wk": wk, "strict": wk == "sync", "ev": ev}
        bad = [r for r in recs if r["outcome"] != "complete"]
        return tr, {"wk": wk, "nhup": nhup, "bind": bind, "burst": burst, "requests": len(recs), "not_complete": [(r["path"], r["outcome"]) for r in bad][:5],
                    "alive": len(alive), "want": want, "tail_markers": tail,
                    "kept_alive": len(karecs), "kept_alive_late_old": [r["pid"] for r in karecs if r["t0"] > hups[-1] + late and r["marker"] != final_marker][:4]}
    finally:
        stop.set()
        s.cleanup()


def reload_side(ctx):
    plan = [("sync", 1, 3, "tcp"), ("gthread", 2, 1, "localhost"), ("gevent", 1, 3, "unix"), ("gevent", 1, 2, "tcp2"),
            ("gthread", 1, 2, "unix"), ("sync", 2, 2, "unix"), ("sync", 2, 0, "tcp"), ("sync", 2, 2, "tcp", True), ("gthread", 3, 2, "unix", True),
            # the configuration file named relative to the start directory, --chdir elsewhere
            ("sync", 2, 3, "tcp", False, True),
            # HUPs that follow each other faster than a worker boots
            ("sync", 2, 2, "tcp", False, False, True), ("gevent", 3, 2, "tcp", False, False, True),
            # started under nohup-like conditions: the master's signals (HUP among them) were left set to "ignore"
            ("sync", 2, 3, "tcp", False, False, False, True)] if ctx.quick else \
        [(wk, n, w, b) for wk in ("sync", "gthread", "gevent", "eventlet")
         for (n, w, b) in ((1, 3, "tcp"), (2, 1, "localhost"), (3, 2, "unix"), (1, 2, "tcp2"), (2, 0, "tcp"))] + \
        [(wk, n, 2, "tcp", True) for wk in ("sync", "gthread", "gevent", "eventlet") for n in (1, 2, 3)] + \
        [(wk, 2, 3, b, False, True) for wk in ("sync", "gthread", "gevent", "eventlet") for b in ("tcp", "unix")] + \
        [(wk, n, 2, "tcp", False, False, True) for wk in ("sync", "gthread", "gevent", "eventlet") for n in (2, 3)] + \
        [(wk, 2, 3, b, False, False, False, True) for wk in ("sync", "gthread", "gevent") for b in ("tcp", "unix")]
    results = _parallel(plan, lambda a, i: run_reload(a[0], a[1], a[2], ctx.seed * 10 + i, bind=a[3],
                                                        drop_env_last=len(a) > 4 and a[4], relcfg=len(a) > 5 and a[5],
                                                        burst=len(a) > 6 and a[6], ignsig=len(a) > 7 and a[7]), par=10)
    traces = [r[0] for r in results]
    metas = [r[1] for r in results]
    # in-process: TERM (what a reload sends to the old workers) at every system-call boundary of the real sync loop
    from props import syncloop
    t2, m2 = syncloop.term_injection_traces(ctx.quick)
    traces += t2
    metas += m2
    ctx.coverage["sync_loop_term_injection_points"] = len(t2)
    # the sync worker's loop against specs/SyncLoop.tla: nothing is taken off a listen queue after the stop request, except
    # the accept that was under way
    syncloop.model_traces(ctx, {"AtMostOneAcceptAfterStop"}, "C10")
    # the connection-level loop against specs/KeepAlive.tla: a worker that was told to stop serves at most one more
    # request on a connection it keeps alive
    from props import keepalive
    keepalive.design(ctx)
    keepalive.model_traces(ctx, {"ServedAfterStop"}, "C10")
    verdicts, stats = tlc.validate_batch("ReloadTrace", "ReloadTrace.cfg", traces, name="ReloadTrace_C10")
    ctx.add_traces(len(traces), stats)

    def rerun(k):
        a = plan[k]
        return run_reload(a[0], a[1], a[2], ctx.seed * 10 + k, bind=a[3], drop_env_last=len(a) > 4 and a[4], relcfg=len(a) > 5 and a[5],
                          burst=len(a) > 6 and a[6], ignsig=len(a) > 7 and a[7])
    tlc.repeat_failing(ctx, "ReloadTrace", "ReloadTrace.cfg", traces, metas, verdicts, range(len(plan)), rerun, "ReloadTrace_C10")
    ctx.coverage["real_process_reloads"] = len(traces)
    ctx.coverage["requests_during_reload"] = sum(m["requests"] for m in metas)
    for t, m, (v, step) in zip(traces, metas, verdicts):
        if v == "ok":
            continue
        sig = "C10/%s/wk=%s" % (v, m["wk"])
        if m.get("fired_at"):
            sig += "/term-at=%s" % m["fired_at"]
        ctx.violation(sig, "%s: %s event=%s" % (v, m, t["ev"][step - 1]), {"trace": t, "meta": m})
    for t, m in list(zip(traces, metas))[:2]:
        ctx.sample({"meta": m, "events": t["ev"][:5] + t["ev"][-1:]})
    ctx.assumptions += ["real-process reloads: requests issued by 4 client threads during 1-3 HUPs; a request counts as started "
                        "when it was sent >= 0.25 s before the HUP and was still running"]


# ---------------------------------------------------------------------------------------------
# C11

def run_timeout(wk, scenario, timeout=2):
    nworkers = 1 if scenario in ("healthy2", "healthy_busy") else 2
    port2 = rp.free_port() if scenario == "healthy2" else None
    hup = scenario.startswith("hup_")
    full_scenario = scenario
    # the listening socket is handed over by the starter (fd://N, as systemd socket activation does), in blocking mode
    inherited = scenario == "healthy_inherited"
    if inherited:
        scenario = "healthy"
    if hup:
        # the timeout in force is the one of the LAST reload: the server starts with another one (in the configuration
        # file), the file is rewritten and the master gets HUP before the scenario proper starts
        scenario = scenario[4:]
        if scenario == "healthy":
            timeout = 4                  # requests of 1.8 s must survive although the server was started with timeout 1
        before = 1 if scenario == "healthy" else 20
        s = rp.Server(wk, workers=nworkers, threads=2 if wk == "gthread" else None, config="timeout = %d\n" % before,
                      args=["--graceful-timeout", "2"], name="c11")
    elif scenario == "healthy_draining":
        # a worker that was told to stop (reload) and is finishing what its open connections still send: healthy, busy
        nworkers = 1
        timeout = 3
        s = rp.Server(wk, workers=1, threads=2 if wk == "gthread" else None,
                      args=["--timeout", str(timeout), "--graceful-timeout", "12", "--keep-alive", "20"], name="c11")
    elif scenario == "healthy_idle_keepalive":
        # a healthy worker holding an idle keep-alive connection whose keep-alive time is longer than --timeout
        nworkers = 1
        s = rp.Server(wk, workers=1, threads=2 if wk == "gthread" else None,
                      args=["--timeout", str(timeout), "--graceful-timeout", "2", "--keep-alive", str(timeout * 5)], name="c11")
    elif scenario == "healthy_full":
        # every connection slot of a threaded worker is taken by clients that are slow, not by a hung worker
        nworkers = 1
        s = rp.Server(wk, workers=1, threads=1, args=["--timeout", str(timeout), "--graceful-timeout", "2", "--worker-connections", "2",
                                                       "--keep-alive", str(timeout * 4)], name="c11")
    else:
        s = rp.Server(wk, workers=nworkers, threads=2 if wk == "gthread" else None, bind="fd" if inherited else "tcp",
                      args=["--timeout", str(timeout), "--graceful-timeout", "2"] +
                           (["-b", "127.0.0.1:%d" % port2] if port2 else []), name="c11")
    try:
        s.start()
        initial = s.wait_booted(nworkers)
        time.sleep(0.3)
        if hup:
            s.rewrite_config("timeout = %d\n" % timeout)
            s.signal(signal.SIGHUP)
            deadline = time.time() + 10
            while time.time() < deadline:
                live = [p for p in s.booted() if p in s.workers() and p not in initial]
                if len(live) >= nworkers and not [p for p in initial if rp.proc_state(p) not in (None, "Z")]:
                    break
                time.sleep(0.1)
            initial = live
            time.sleep(0.3)
        ev = []
        slack = 2500
        if scenario == "healthy2":
            # one worker, two listeners: while it serves a first request, one request is queued on EACH listener;
            # each lasts 0.75 x timeout, so the worker is busy but never silent for a whole timeout per request
            import socket as _socket
            res = {}

            def req(port, name, t):
                try:
                    c = _socket.create_connection(("127.0.0.1", port))
                    c.settimeout(timeout * 6)
                    c.sendall(("GET /sleep?t=%s HTTP/1.1\r\nHost: h\r\nConnection: close\r\n\r\n" % t).encode())
                    r = rp.read_response(c)
                    res[name] = r[0]
                    c.close()
                except OSError:
                    res[name] = 0
            fails = n = 0
            for _ in range(2):
                ths = [threading.Thread(target=req, args=(s.port, "c", timeout * 0.5))]
                ths[0].start()
                time.sleep(0.3)
                ths += [threading.Thread(target=req, args=(s.port, "a", timeout * 0.75)),
                        threading.Thread(target=req, args=(port2, "b", timeout * 0.75))]
                ths[1].start()
                ths[2].start()
                [t.join() for t in ths]
                n += 3
                fails += sum(1 for k in ("a", "b", "c") if res.get(k) != 200)
            time.sleep(1.2)
            alive = [p for p in initial if rp.proc_state(p) not in (None, "Z")]
            ev.append({"e": "healthy", "killed": len(initial) - len(alive)})
            ev.append({"e": "others", "ok": n - fails, "failed": fails})
            tr = {"scenario": scenario, "wk": wk, "timeout_ms": timeout * 1000, "bound_ms": 0, "min_ms": 0, "ev": ev}
            return tr, {"wk": wk, "scenario": scenario, "requests": n, "failed": fails}
        # hang -> ABRT at most timeout + 1 s (master loop) later; ignored ABRT -> KILL one more loop (1 s) later
        bound = timeout * 1000 + 1000 + (1000 if scenario.startswith("ignore") else 0) + 1000 + slack
        if scenario == "healthy_draining":
            res = {}
            b = s.connect(timeout=20)
            s.get("/pid", sock=b, keepalive=True)          # an open keep-alive connection of the old worker

            def long_a():
                try:
                    res["a"] = s.get("/sleep?t=2.5", timeout=20)[0]
                except OSError:
                    res["a"] = 0
            ta = threading.Thread(target=long_a)
            ta.start()
            time.sleep(0.4)
            s.signal(signal.SIGHUP)                         # the old worker is asked to stop gracefully
            time.sleep(2.0)
            try:
                res["b"] = s.get("/sleep?t=2.5", sock=b, keepalive=True, timeout=20)[0]
            except OSError:
                res["b"] = 0
            ta.join()
            b.close()
            log = s.errlog()
            ev.append({"e": "healthy", "killed": 1 if "WORKER TIMEOUT" in log else 0})
            ev.append({"e": "others", "ok": sum(1 for k in ("a", "b") if res.get(k) == 200), "failed": sum(1 for k in ("a", "b") if res.get(k) != 200)})
            tr = {"scenario": scenario, "wk": wk, "timeout_ms": timeout * 1000, "bound_ms": 0, "min_ms": 0, "ev": ev}
            return tr, {"wk": wk, "scenario": scenario, "requests": 2, "res": res, "log": log[-300:]}
        if scenario == "healthy_idle_keepalive":
            a = s.connect(timeout=timeout * 8)
            st, body, info = s.get("/pid", sock=a, keepalive=True)
            time.sleep(timeout * 2.6)
            alive = [p for p in initial if rp.proc_state(p) not in (None, "Z")]
            ev.append({"e": "healthy", "killed": len(initial) - len(alive)})
            try:
                st2, body2, info2 = s.get("/pid", sock=a, keepalive=True)
                ok2 = st2 == 200 and rp.parse_ident(body2)[0] in initial
            except OSError:
                ok2 = False
            ev.append({"e": "others", "ok": 1 if ok2 else 0, "failed": 0 if ok2 else 1})
            a.close()
            tr = {"scenario": scenario, "wk": wk, "timeout_ms": timeout * 1000, "bound_ms": 0, "min_ms": 0, "ev": ev}
            return tr, {"wk": wk, "scenario": scenario, "requests": 2, "log": s.errlog()[-300:]}
        if scenario == "healthy_full":
            a = s.connect(timeout=timeout * 6)
            st, body, info = s.get("/pid", sock=a, keepalive=True)
            b = s.connect(timeout=timeout * 6)       # connected, silent
            time.sleep(timeout * 2.2)
            alive = [p for p in initial if rp.proc_state(p) not in (None, "Z")]
            ev.append({"e": "healthy", "killed": len(initial) - len(alive)})
            a.close()
            b.close()
            tr = {"scenario": scenario, "wk": wk, "timeout_ms": timeout * 1000, "bound_ms": 0, "min_ms": 0, "ev": ev}
            return tr, {"wk": wk, "scenario": scenario, "requests": 1, "log": s.errlog()[-300:]}
        if scenario == "healthy_busy":
            # several clients keep the listen queue non-empty for longer than the timeout with short requests
            stop_at = time.time() + timeout * 2.6
            cnt = {"ok": 0, "fail": 0}

            def loop():
                while time.time() < stop_at:
                    try:
                        st, body, info = s.get("/sleep?t=0.04", timeout=timeout * 3)
                        cnt["ok" if st == 200 else "fail"] += 1
                    except OSError:
                        cnt["fail"] += 1
            ths = [threading.Thread(target=loop) for _ in range(6)]
            [t.start() for t in ths]
            [t.join() for t in ths]
            time.sleep(0.5)
            alive = [p for p in initial if rp.proc_state(p) not in (None, "Z")]
            ev.append({"e": "healthy", "killed": len(initial) - len(alive)})
            ev.append({"e": "others", "ok": cnt["ok"], "failed": cnt["fail"]})
            tr = {"scenario": scenario, "wk": wk, "timeout_ms": timeout * 1000, "bound_ms": 0, "min_ms": 0, "ev": ev}
            return tr, {"wk": wk, "scenario": scenario, "requests": cnt["ok"] + cnt["fail"], "failed": cnt["fail"]}
        if scenario == "healthy":
            # idle for a while, then busy with requests shorter than the timeout, back to back
            t_end = time.time() + timeout * 2.5
            fails = 0
            n = 0
            while time.time() < t_end:
                st, body, info = s.get("/sleep?t=%.2f" % (timeout * 0.45), timeout=timeout * 3)
                n += 1
                if st != 200:
                    fails += 1
            time.sleep(timeout * (2.6 if inherited else 1.2))     # idle
            alive = [p for p in initial if rp.proc_state(p) not in (None, "Z")]
            ev.append({"e": "healthy", "killed": len(initial) - len(alive)})
            ev.append({"e": "others", "ok": n - fails, "failed": fails})
            tr = {"scenario": scenario, "wk": wk, "timeout_ms": timeout * 1000, "bound_ms": bound, "min_ms": 0, "ev": ev}
            return tr, {"wk": wk, "scenario": full_scenario, "requests": n}
        # make one worker hang
        victim = None
        if scenario.startswith("stop"):
            victim = initial[0]
            os.kill(victim, signal.SIGSTOP)
            t0 = time.time()
        else:
            c = s.connect(timeout=30)
            c.sendall(("GET /hang%s HTTP/1.1\r\nHost: h\r\n\r\n" % ("?ignore=1" if scenario.startswith("ignore") else "")).encode())
            t0 = time.time()
            time.sleep(0.3)
        poke = None
        if scenario.endswith("_busymaster"):
            # the master is woken several times per second (USR1: reopen logs) while the worker hangs
            poke_stop = threading.Event()

            def poker():
                while not poke_stop.is_set():
                    try:
                        s.signal(signal.SIGUSR1)
                    except OSError:
                        pass
                    time.sleep(0.3)
            poke = threading.Thread(target=poker, daemon=True)
            poke.start()
        # the rest of the server keeps serving
        ok = failed = 0
        served_by = set()
        gone_ms = -1
        deadline = t0 + bound / 1000.0 + 1.0
        while time.time() < deadline:
            try:
                st, body, info = s.get("/pid", timeout=1.5)
                if st == 200:
                    ok += 1
                    served_by.add(rp.parse_ident(body)[0])
                else:
                    failed += 1
            except OSError:
                failed += 1
            if victim is None:
                # the hung worker is the one that stopped answering: the one not in served_by
                cand = [p for p in initial if p not in served_by]
                if len(cand) == 1 and ok >= 4:
                    victim = cand[0]
            if victim is not None and gone_ms < 0 and rp.proc_state(victim) in (None, "Z"):
                gone_ms = int((time.time() - t0) * 1000)
                break
            time.sleep(0.1)
        if victim is None:
            victim = [p for p in initial if p not in served_by][:1]
            victim = victim[0] if victim else initial[0]
            if rp.proc_state(victim) in (None, "Z"):
                gone_ms = int((time.time() - t0) * 1000)
        if poke:
            poke_stop.set()
        time.sleep(1.5)
        alive = [p for p in s.workers() if rp.proc_state(p) not in (None, "Z")]
        if wk in ("gevent", "eventlet", "gthread") and not scenario.startswith("stop"):
            # a blocked request does not block a concurrent worker's main loop: the worker is NOT hung
            ev.append({"e": "healthy", "killed": 0 if gone_ms < 0 else 1})
        else:
            ev.append({"e": "gone", "after_ms": gone_ms})
            ev.append({"e": "pool", "nworkers": len(alive), "want": nworkers})
        ev.append({"e": "others", "ok": ok, "failed": failed if wk != "sync" or scenario == "stop" or True else 0})
        tr = {"scenario": scenario, "wk": wk, "timeout_ms": timeout * 1000, "bound_ms": bound,
              "min_ms": 0 if scenario.startswith("stop") else timeout * 1000 - 200, "ev": ev}
        return tr, {"wk": wk, "scenario": full_scenario, "gone_ms": gone_ms, "ok": ok, "failed": failed, "alive": len(alive)}
    finally:
        try:
            for p in s.workers():
                try:
                    os.kill(p, signal.SIGCONT)
                except OSError:
                    pass
        except Exception:
            pass
        s.cleanup()


def timeout_side(ctx):
    # worker side of the heartbeat: specs/SyncLoop.tla (TLC: safety + liveness) and the real sync loop against it -- at most
    # one blocking operation between two notify() calls; a worker that lost its parent or was told to stop leaves its loop
    from props import syncloop
    syncloop.design(ctx)
    syncloop.model_traces(ctx, {"BeatBeforeEveryBlockingOp", "Leaves"}, "C11")
    plan = [("sync", "hang"), ("gthread", "stop"), ("sync", "healthy"), ("gevent", "healthy"), ("sync", "healthy2"),
            ("sync", "healthy_busy"), ("sync", "stop_busymaster"), ("sync", "hup_hang"), ("sync", "hup_healthy"), ("gthread", "healthy_full"), ("gthread", "healthy_idle_keepalive"), ("gevent", "healthy_draining"), ("eventlet", "healthy_draining"),
            ("sync", "healthy_inherited")] if ctx.quick else \
        [(wk, sc) for wk in ("sync", "gthread", "gevent", "eventlet") for sc in ("hang", "stop", "ignore", "healthy")] + \
        [("sync", "healthy2"), ("gthread", "healthy2"), ("sync", "healthy_busy"), ("gthread", "healthy_busy"),
         ("sync", "stop_busymaster"), ("gevent", "stop_busymaster"), ("sync", "hang_busymaster"),
         ("sync", "hup_hang"), ("sync", "hup_healthy"), ("gthread", "hup_stop"), ("gevent", "hup_healthy"), ("gthread", "healthy_full"), ("gthread", "healthy_idle_keepalive"), ("gevent", "healthy_idle_keepalive"),
         ("eventlet", "healthy_idle_keepalive"), ("gevent", "healthy_draining"), ("eventlet", "healthy_draining")] + [(wk, "healthy_inherited") for wk in ("sync", "gthread", "gevent", "eventlet")]
    results = _parallel(plan, lambda a, i: run_timeout(a[0], a[1]), par=13)
    traces = [r[0] for r in results]
    metas = [r[1] for r in results]
    verdicts, stats = tlc.validate_batch("TimeoutTrace", "TimeoutTrace.cfg", traces, name="TimeoutTrace_C11")
    ctx.add_traces(len(traces), stats)
    tlc.repeat_failing(ctx, "TimeoutTrace", "TimeoutTrace.cfg", traces, metas, verdicts, range(len(plan)),
                       lambda k: run_timeout(plan[k][0], plan[k][1]), "TimeoutTrace_C11")
    ctx.coverage["real_process_timeout_runs"] = len(traces)
    for t, m, (v, step) in zip(traces, metas, verdicts):
        if v == "ok":
            continue
        ctx.violation("C11/%s/wk=%s,scenario=%s" % (v, m["wk"], m["scenario"]), "%s: %s event=%s" % (v, m, t["ev"][step - 1]),
                      {"trace": t, "meta": m})
    for t, m in list(zip(traces, metas))[:2]:
        ctx.sample({"meta": m, "events": t["ev"]})
    ctx.assumptions += ["real-process timeout runs: --timeout 2; bound = timeout + 1 s master loop (+1 s escalation) + 1 s + 2.5 s slack",
                        "for gthread/gevent/eventlet a blocked application does not stop the worker's heartbeat, so only SIGSTOP makes it hung"]


def _parallel(plan, fn, par=4):
    results = [None] * len(plan)

    def runner(i):
        try:
            results[i] = fn(plan[i], i)
        except Exception as e:   # noqa
            results[i] = e
    for base in range(0, len(plan), par):
        ths = [threading.Thread(target=runner, args=(i,)) for i in range(base, min(base + par, len(plan)))]
        [t.start() for t in ths]
        [t.join() for t in ths]
    for r in results:
        if isinstance(r, Exception):
            raise r
    return results
