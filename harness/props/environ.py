"""C15: the WSGI environ faithfully reflects the request that was received.

specs/Environ.tla is an executable RFC 3875 / PEP 3333 reference over symbolic request targets; TLC
enumerates every target of <= MaxLen symbols in the four target forms (and checks the reference's own
sanity invariants), emits them as cases; each is concretized to bytes, parsed and served by the real
handle() -> wsgi.create; the environ the application saw is abstracted back to symbols and judged by TLC
(specs/EnvironTrace.tla).  Seeded random longer targets, methods, versions and header lists with repeats
are added on top.
"""
import json
import os

import tlc
from drivers import conn as drv

OUT = tlc.OUT
SYM = {"a": b"a", "/": b"/", "pct_ascii": b"%41", "pct_high": b"%E9", "pct_2f": b"%2F", "pct_25": b"%25",
       "pct_bad": b"%zz", "raw_high": b"\xe9", ";": b";", "+": b"+", "ht": b"\t", "q": b"?"}
ALT = {"a": [b"a", b"b", b"0", b"-", b".", b"_", b"~", b"x"], "pct_ascii": [b"%41", b"%7e", b"%7E", b"%20"],
       "pct_high": [b"%E9", b"%e9", b"%ff", b"%80", b"%C3"], "pct_2f": [b"%2F", b"%2f"], "raw_high": [b"\xe9", b"\xff", b"\x80", b"\xc3"],
       "pct_bad": [b"%zz", b"%g1", b"%4z", b"%-1"], "ht": [b"\t"], "+": [b"+", b"=", b"&", b":", b"@", b"!", b"$", b"'", b"(", b")", b"*", b","]}
SYMS = list(SYM)


def emit(maxlen):
    cfgp = os.path.join(OUT, "cfg", "EnvironCases.cfg")
    os.makedirs(os.path.dirname(cfgp), exist_ok=True)
    tlc.write_cfg(cfgp, spec="CSpec", constants={"MaxLen": maxlen})
    outp = os.path.join(OUT, "cases_environ.ndjson")
    if os.path.exists(outp):
        os.unlink(outp)
    tlc.run("EnvironCases", cfgp, name="EnvironCases", workers=1, timeout=1200, env={"CASES_OUT": outp}, heap="12g")
    with open(outp) as f:
        return [json.loads(x) for x in f if x.strip()]


def concretize(form, t, rng=None):
    """-> (target bytes, list of (symbol, bytes))"""
    parts = []
    for s in t:
        b = SYM[s]
        if rng is not None and s in ALT:
            b = rng.choice(ALT[s])
        parts.append((s, b))
    body = b"".join(b for _, b in parts)
    if form == "star":
        return b"*", []
    prefix = {"origin": b"/", "dslash": b"//", "abs": b"http://h/", "absempty": b"http://h", "mount": b"/m/", "mounth": b"/m/"}[form]
    return prefix + body, parts


def byte_token(ch):
    o = ord(ch)
    if ch == "/":
        return "/"
    if ch == "%":
        return "%"
    if ch == ";":
        return ";"
    if ch == "?":
        return "?"
    if ch == "\t":
        return "ht"
    if ch == "*":
        return "*"
    if o >= 0x80:
        return "hi"
    return None


def abstract_path(path, parts, form):
    """observed PATH_INFO string -> byte tokens, using the expected decoding of each concrete symbol to
    name the bytes (a: unreserved, A: decoded ascii escape, +: sub-delim...)"""
    # expected byte values per token kind for this concretization
    exp = []
    for s, b in parts:
        if s == "q":
            break
        if s in ("pct_ascii", "pct_high", "pct_2f", "pct_25"):
            exp.append((bytes([int(b[1:3], 16)]), {"pct_ascii": "A", "pct_high": "hi", "pct_2f": "/", "pct_25": "%"}[s]))
        elif s == "pct_bad":
            for i, x in enumerate(b):
                exp.append((bytes([x]), ["%", "z", "z"][i] if len(b) == 3 else ("%" if i == 0 else "z")))
        elif s == "raw_high":
            exp.append((b, "hi"))
        else:
            exp.append((b, {"a": "a", "/": "/", ";": ";", "+": "+", "ht": "ht"}[s]))
    lead = 2 if form == "dslash" else 0 if form == "absempty" else 1
    toks = []
    chars = list(path)
    # leading slashes
    for i in range(min(lead, len(chars))):
        toks.append("/" if chars[i] == "/" else "x%02x" % ord(chars[i]))
    rest = chars[lead:]
    for i, ch in enumerate(rest):
        if i < len(exp) and ch.encode("latin-1", "replace") == exp[i][0]:
            toks.append(exp[i][1])
        else:
            toks.append(byte_token(ch) or "x%02x" % ord(ch))
    return toks


def abstract_query(q, parts):
    """observed QUERY_STRING -> target symbols by greedy matching of the concrete spellings sent"""
    sent = []
    seen_q = False
    for s, b in parts:
        if seen_q:
            sent.append((s, b))
        elif s == "q":
            seen_q = True
    raw = q.encode("latin-1", "replace")
    out, pos = [], 0
    for s, b in sent:
        if raw[pos:pos + len(b)] == b:
            out.append(s)
            pos += len(b)
        else:
            break
    if pos != len(raw) or len(out) != len(sent):
        # not what was sent: report the mismatch position explicitly
        out.append("MISMATCH@%d" % pos)
    return out


WRAPS = [(b"", b""), (b"", b""), (b" ", b"\t "), (b"\xa0", b"\xa0"), (b"\x0b", b""), (b"", b"\x0c"), (b"\x1c", b"\x1f"),
         (b"\x85", b""), (b"", b"\xa0"), (b"caf\xe9 ", b""), (b"\t", b"")]


# field names by id (5 is the hyphen look-alike of the SCRIPT_NAME forwarder header); 6.. are names that servers have been
# known to treat specially: proxy / forwarding / hop-by-hop / conditional / auth fields -- to the gateway they are all
# just HTTP_* variables
NAMES = {1: "X-A", 2: "X-B", 3: "Accept", 4: "X-Custom-Long-Name", 5: "Script-Name", 6: "Proxy", 7: "X-Forwarded-Proto",
         8: "X-Forwarded-For", 9: "X-Forwarded-Ssl", 10: "X-Forwarded-Protocol", 11: "Cookie", 12: "Authorization",
         13: "Connection", 14: "Keep-Alive", 15: "Upgrade", 16: "If-None-Match", 17: "Proxy-Connection", 18: "X-Real-Ip",
         19: "Forwarded", 20: "Via", 21: "Content-Md5", 22: "Range", 23: "Te", 24: "Trailer"}
PEERS = [("127.0.0.1", 45678), ("127.0.0.1", 45678), ("10.9.9.9", 5555), ("2001:db8::9", 5555, 0, 0), ""]


def observe(form, t, rng, hdrs=None, method="GET", ver=11, vary=False):
    target, parts = concretize(form, t, rng if vary else None)
    hdrs = hdrs or []
    names = dict(NAMES)
    hl = b""
    expect_str = {}                     # environ value string -> value id
    for n, v in hdrs:
        if n == 5:
            raw = b"/"                   # a hyphen-spelled look-alike of the SCRIPT_NAME forwarder header
        elif v == 999:
            raw = rng.choice([b"", b"", b" ", b"\t "]) if vary else b""      # an empty field value (a list member all the same)
        else:
            pre, suf = rng.choice(WRAPS) if vary else (b"", b"")
            raw = pre + b"v%d" % v + suf
        expect_str[raw.strip(b" \t").decode("latin-1")] = v
        nm = names[n] if rng.random() < 0.5 else names[n].upper()
        hl += nm.encode() + b": " + raw + b"\r\n"
    if form == "mounth":
        hl += b"SCRIPT_NAME: /m\r\n"     # the forwarder header of a front-end that mounts the application under /m
    ctype = rng.random() < 0.3
    if ctype:
        hl += b"Content-Type: text/x\r\nContent-Length: 0\r\n"
    # (a Host field is what every HTTP/1.1 client sends; HTTP/1.0 clients and hand-written probes may leave it out)
    host_sent = not (vary and rng.random() < 0.3)
    req = method.encode() + b" " + target + b" HTTP/1.%d\r\n" % (ver - 10) + (b"Host: h\r\n" if host_sent else b"") + hl + b"\r\n"
    envs = []

    def app(environ, start_response):
        envs.append(environ)
        start_response("200 OK", [("Content-Length", "0")])
        return []
    cfg = drv.make_cfg()
    # SCRIPT_NAME "as configured": raw_env / the process environment, set when the worker starts, i.e. after
    # gunicorn's modules were imported
    os.environ.pop("SCRIPT_NAME", None)
    if form == "mount":
        os.environ["SCRIPT_NAME"] = "/m"
    try:
        # the peer may or may not be one of the permitted forwarders (the default list: loopback)
        if form == "mounth":
            peer = rng.choice([PEERS[0], ""])       # permitted forwarders: loopback, a unix-socket peer
        else:
            peer = rng.choice(PEERS) if vary else PEERS[0]
        r = drv.serve("sync", cfg, [req], app, peer=peer)
    finally:
        os.environ.pop("SCRIPT_NAME", None)
    if not envs:
        return None, {"request": req.decode("latin-1"), "rejected": True, "wire": r.wire[:60].decode("latin-1")}
    env = envs[0]
    obs = {"raw_ok": env.get("RAW_URI") == target.decode("latin-1"), "method_ok": env.get("REQUEST_METHOD") == method,
           "proto_ok": env.get("SERVER_PROTOCOL") == "HTTP/1.%d" % (ver - 10),
           "script": len(env.get("SCRIPT_NAME", "")),
           "path": ["*"] if form == "star" and env.get("PATH_INFO") == "*" else abstract_path(env.get("PATH_INFO", ""), parts, form),
           "query": abstract_query(env.get("QUERY_STRING", ""), parts), "vars": [], "ct_ok": True}
    for n, nm in names.items():
        key = "HTTP_" + nm.upper().replace("-", "_")
        if key in env:
            vals = [expect_str.get(tok, -1) for tok in env[key].split(",")]
            obs["vars"].append([n, vals])
    # every HTTP_* variable stands for a field the client sent
    sent_keys = {"HTTP_" + names[n].upper().replace("-", "_") for n, v in hdrs} | ({"HTTP_HOST"} if host_sent else set()) | \
        ({"HTTP_SCRIPT_NAME"} if form == "mounth" else set())
    obs["invented"] = len([k for k in env if k.startswith("HTTP_") and k not in sent_keys])
    if host_sent and env.get("HTTP_HOST") != "h":
        obs["invented"] += 1
    if ctype:
        obs["ct_ok"] = env.get("CONTENT_TYPE") == "text/x" and env.get("CONTENT_LENGTH") == "0" and \
            "HTTP_CONTENT_TYPE" not in env and "HTTP_CONTENT_LENGTH" not in env
    tr = {"form": form, "t": list(t), "hdrs": [list(h) for h in hdrs], "obs": obs}
    return tr, {"request": req.decode("latin-1"), "PATH_INFO": env.get("PATH_INFO"), "QUERY_STRING": env.get("QUERY_STRING"),
                "RAW_URI": env.get("RAW_URI"), "vars": {k: env[k] for k in env if k.startswith("HTTP_X")}}


def real_script_name():
    """SCRIPT_NAME "as configured" on a real server: set through raw_env, then taken out of the configuration and the
    master reloaded (HUP): the workers of the new generation split PATH_INFO from the SCRIPT_NAME configured NOW.
    -> traces for EnvironTrace (form mount / origin with the observed split)"""
    import signal
    import time
    from drivers import realproc as rp
    s = rp.Server("sync", workers=1, config='raw_env = ["SCRIPT_NAME=/m"]\n', name="c15")
    out = []
    try:
        s.env.pop("SCRIPT_NAME", None)
        s.probe = "/m/pid"
        s.start()
        first = s.wait_booted(1)

        def probe(form):
            st, body, info = s.get("/m/x%41?envdump=1", timeout=5)
            txt = body.decode("latin-1")
            sn = txt.split("SN=")[1].split("|")[0] if "SN=" in txt else "?"
            pi = txt.split("PI=")[1].split("|")[0] if "PI=" in txt else "?"
            # target symbols: form mount = "/m/" + <a pct_ascii q a...>; as origin form the same bytes are "/" + <a / a pct_ascii ...>
            if form == "mount":
                t = ["a", "pct_ascii", "q", "a"]
                path_tokens = ["/", "a", "A"] if pi == "/xA" else ["x-unexpected"]
                query = ["a"]
            else:
                t = ["a", "/", "a", "pct_ascii", "q", "a"]
                path_tokens = ["/", "a", "/", "a", "A"] if pi == "/m/xA" else ["x-unexpected"]
                query = ["a"]
            obs = {"raw_ok": True, "method_ok": True, "proto_ok": True, "script": len(sn), "path": path_tokens, "query": query,
                   "vars": [], "ct_ok": True, "invented": 0}
            return {"form": form, "t": t, "hdrs": [], "obs": obs}, {"request": "GET /m/x%41?envdump=1 (real server, " + form + ")",
                                                                   "PATH_INFO": pi, "QUERY_STRING": "envdump=1", "SCRIPT_NAME": sn,
                                                                   "RAW_URI": "/m/x%41?envdump=1", "vars": {}}
        out.append(probe("mount"))
        s.rewrite_config("")
        s.signal(signal.SIGHUP)
        deadline = time.time() + 8
        while time.time() < deadline:
            live = [p for p in s.booted() if p in s.workers() and p not in first]
            if live and not [p for p in first if rp.proc_state(p) not in (None, "Z")]:
                break
            time.sleep(0.1)
        time.sleep(0.3)
        out.append(probe("origin"))
    finally:
        s.cleanup()
    return out


def c15(ctx):
    rng = ctx.rng
    maxlen = 3 if ctx.quick else 4
    cfg = os.path.join(OUT, "cfg", "Environ_ref.cfg")
    tlc.write_cfg(cfg, spec="Spec", constants={"MaxLen": maxlen},
                  invariants=["PathLenIsDecodedBytes", "QueryNeverDecoded", "SplitIsPartition"])
    r = tlc.run("Environ", cfg, name="Environ_ref", workers=8, timeout=1200)
    if not r.ok:
        raise tlc.TLCError("Environ reference violates its own sanity invariants: %s" % r.violated)
    ctx.add_model(r, "reference")
    ctx.coverage["exhaustive"] = True
    cases = emit(maxlen)
    ctx.coverage["targets_enumerated"] = len(cases)
    if ctx.quick and len(cases) > 4000:
        cases = rng.sample(cases, 4000)
    traces, metas = [], []
    nrej = 0

    def add(form, t, **kw):
        nonlocal nrej
        tr, m = observe(form, t, rng, **kw)
        if tr is None:
            nrej += 1        # the parser refused the request: outside C15's quantifier
            return
        traces.append(tr)
        metas.append(m)
    for c in cases:
        add(c["form"], c["t"])
    for _ in range(1500 if ctx.quick else 20000):
        form = rng.choice(["origin", "origin", "dslash", "abs", "mount", "mounth", "absempty"])
        if form == "absempty":
            t = ["q"] + [rng.choice(SYMS) for _ in range(rng.randint(0, 6))] if rng.random() < 0.7 else []
            add(form, t, method=rng.choice(["GET", "OPTIONS"]), vary=True)
            continue
        t = [rng.choice(SYMS) for _ in range(rng.randint(0, 10))]
        hdrs = [[rng.choice([1, 2, 3, 4] + list(range(6, 25))), 999 if rng.random() < 0.2 else i + 1] for i in range(rng.randint(0, 6))]
        if rng.random() < 0.1 and form not in ("abs", "mounth"):      # (with the forwarder header itself both land in HTTP_SCRIPT_NAME: documented)
            hdrs.append([5, 500])
        add(form, t, hdrs=hdrs, method=rng.choice(["GET", "POST", "DELETE", "OPTIONS", "M-SEARCH", "PATCH"]),
            ver=rng.choice([10, 11, 11, 12, 15, 19]), vary=True)
    add("star", [], method="OPTIONS")
    for tr, m in real_script_name():
        traces.append(tr)
        metas.append(m)
    ctx.coverage["rejected_by_parser"] = nrej
    verdicts, stats = tlc.validate_batch("EnvironTrace", "EnvironTrace.cfg", traces, name="EnvironTrace_C15", chunk=6000)
    ctx.add_traces(len(traces), stats)
    for t, m, (v, step) in zip(traces, metas, verdicts):
        if v == "ok":
            continue
        syms = t["t"]
        q = syms.index("q") if "q" in syms else len(syms)
        part = syms[:q] if v.startswith("PathInfo") else syms[q + 1:] if v.startswith("Query") else []
        cause = sorted(set(s for s in part if s in ("raw_high", "ht", "pct_bad", "pct_high", "pct_25", "pct_2f", ";", "+")))
        culprit = "-"
        for cand in ("ht", "raw_high"):
            if cand in cause:
                culprit = cand
                break
        else:
            culprit = ",".join(cause) or "-"
        if v == "HeaderVariableWrong":
            culprit = "value-bytes"
        elif v == "ScriptNameNotAsConfigured":
            culprit = "hyphen-script-name" if any(h[0] == 5 for h in t["hdrs"]) else "-"
        ctx.violation("C15/%s/%s" % (v, culprit), "%s: %s observed=%s" % (v, json.dumps(m)[:300], t["obs"]), {"trace": t, "meta": m})
    for t, m in list(zip(traces, metas))[:2] + list(zip(traces, metas))[-2:]:
        ctx.sample({"request": m["request"][:120], "PATH_INFO": m["PATH_INFO"], "QUERY_STRING": m["QUERY_STRING"], "obs": t["obs"]})
    ctx.assumptions += ["targets without '#' (a fragment is not part of a request-target)",
                        "requests the parser refuses are outside the quantifier (counted as rejected_by_parser)",
                        "SCRIPT_NAME empty, or \"/m\" set in the process environment after import (form mount), as raw_env does at worker start"]


def replay(ctx, data):
    import random
    t = data["case"]["trace"]
    tr, m = observe(t["form"], t["t"], random.Random(0), hdrs=t["hdrs"])
    print(m, tr and tr["obs"])
    if tr is None:
        return 0
    verdicts, _ = tlc.validate_batch("EnvironTrace", "EnvironTrace.cfg", [tr], name="EnvironTrace_replay")
    print("verdict:", verdicts[0])
    return 1 if verdicts[0][0] != "ok" else 0


CHECKS = {"C15": c15}
