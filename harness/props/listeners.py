"""specs/Listeners.tla (how a starting master obtains its listening sockets) against real starts of gunicorn in a prepared
environment: systemd-style activation variables that name the master / another process, fd:// binds, a unix path that is
absent / a stale socket file / another server's live socket / a regular file, a TCP port that is free / taken / released
after two seconds.  Not one of the listed properties: differences are reported as drift."""
import fcntl
import os
import shutil
import socket
import subprocess
import tempfile
import time

import tlc
from drivers import realproc as rp

LAUNCH = r'''
import os, sys
mode, fd = sys.argv[1], int(sys.argv[2])
if mode in ("mine", "other"):
    os.dup2(fd, 3)
    os.set_inheritable(3, True)
    os.environ["LISTEN_FDS"] = "1"
    os.environ["LISTEN_PID"] = str(os.getpid() if mode == "mine" else 1)
os.execv(sys.executable, [sys.executable, "-m", "gunicorn"] + sys.argv[3:])
'''


def _ask(family, addr):
    c = socket.socket(family, socket.SOCK_STREAM)
    c.settimeout(2)
    try:
        c.connect(addr)
        c.sendall(b"GET /pid HTTP/1.1\r\nHost: h\r\nConnection: close\r\n\r\n")
        st, body, info = rp.read_response(c)
        return st == 200 and rp.parse_ident(body)[0] is not None
    except OSError:
        return False
    finally:
        c.close()


def run_start(sd, binds, path, busyfor):
    d = tempfile.mkdtemp(prefix="lsn_", dir=rp._scratch())
    keep = []
    p = None
    try:
        upath = os.path.join(d, "g.sock")
        port = rp.free_port()
        holder = None
        other = None
        if "unix" in binds:
            if path in ("stale", "live"):
                other = socket.socket(socket.AF_UNIX, socket.SOCK_STREAM)
                other.bind(upath)
                other.listen(4)
                if path == "stale":
                    other.close()
                    other = None
            elif path == "file":
                with open(upath, "w") as f:
                    f.write("precious")
        if "tcp" in binds and busyfor > 0:
            # the port that is taken: whatever the kernel gives the holder (no window between choosing and binding)
            holder = socket.socket(socket.AF_INET, socket.SOCK_STREAM)
            holder.setsockopt(socket.SOL_SOCKET, socket.SO_REUSEADDR, 1)
            holder.bind(("127.0.0.1", 0))
            holder.listen(4)
            port = holder.getsockname()[1]
        # descriptors handed over: one for the fd:// bind, one for the activation variables
        fdsock = sdsock = None
        his = []
        args = []
        pass_fds = []
        for b in binds:
            if b == "tcp":
                args += ["-b", "127.0.0.1:%d" % port]
            elif b == "unix":
                args += ["-b", "unix:" + upath]
            else:
                fdsock = socket.socket(socket.AF_INET, socket.SOCK_STREAM)
                fdsock.bind(("127.0.0.1", 0))
                fdsock.listen(16)
                # (a descriptor number well above 3: the launcher puts the activation socket on 3)
                fdnum = fcntl.fcntl(fdsock.fileno(), fcntl.F_DUPFD, 100)
                os.set_inheritable(fdnum, True)
                his.append(fdnum)
                pass_fds.append(fdnum)
                args += ["-b", "fd://%d" % fdnum]
        sdfd = 0
        if sd != "none":
            sdsock = socket.socket(socket.AF_INET, socket.SOCK_STREAM)
            sdsock.bind(("127.0.0.1", 0))
            sdsock.listen(16)
            sdfd = fcntl.fcntl(sdsock.fileno(), fcntl.F_DUPFD, 100)
            os.set_inheritable(sdfd, True)
            his.append(sdfd)
            pass_fds.append(sdfd)
        errp = os.path.join(d, "err.log")
        cmd = [rp.PY, "-c", LAUNCH, sd, str(sdfd), "--chdir", rp.APPDIR, "-w", "1", "--error-logfile", errp,
               "--worker-tmp-dir", d, "--graceful-timeout", "2"] + args + ["vapp:app"]
        env = dict(os.environ, PYTHONPATH=rp.REPO, PYTHONDONTWRITEBYTECODE="1")
        env.pop("GUNICORN_CMD_ARGS", None)
        t0 = time.time()
        with open(os.path.join(d, "stderr.txt"), "w") as ferr:
            p = subprocess.Popen(cmd, cwd=rp.REPO, env=env, stdout=subprocess.DEVNULL, stderr=ferr, pass_fds=pass_fds)
        exited = {}

        def waiter():
            p.wait()
            exited["t"] = time.time()
        import threading
        threading.Thread(target=waiter, daemon=True).start()
        targets = {"tcp": (socket.AF_INET, ("127.0.0.1", port)), "unix": (socket.AF_UNIX, upath)}
        if fdsock is not None:
            targets["fd"] = (socket.AF_INET, fdsock.getsockname())
        if sdsock is not None:
            targets["systemd"] = (socket.AF_INET, sdsock.getsockname())
        out, secs, served = "hung", -1, []
        released = False
        while time.time() - t0 < 12:
            el = time.time() - t0
            if holder is not None and busyfor < 50 and el >= busyfor and not released:
                holder.close()
                released = True
            st = p.poll()
            if st is not None:
                time.sleep(0.05)
                secs = int(round(exited.get("t", time.time()) - t0))      # (when it exited, not when the loop noticed)
                with open(os.path.join(d, "stderr.txt")) as f:
                    txt = f.read()
                try:
                    with open(errp) as f:
                        txt += f.read()
                except OSError:
                    pass
                out = "refused" if "is not a socket" in txt else "exit1" if st == 1 and "Can't connect to" in txt else "other"
                break
            # serving? (whatever answers among the candidates that are not held by the driver itself)
            got = []
            for name, (fam, addr) in targets.items():
                if name == "tcp" and holder is not None and not released:
                    continue
                if name == "unix" and path == "file":
                    continue
                if _ask(fam, addr):
                    got.append(name)
            if got:
                time.sleep(0.5)
                served = sorted(n for n, (fam, addr) in targets.items()
                                if not (n == "unix" and path == "file") and not (n == "tcp" and holder is not None and not released)
                                and _ask(fam, addr))
                out, secs = "serving", int(round(time.time() - t0))
                break
            time.sleep(0.2)
        intact = True
        if path == "file" and "unix" in binds:
            try:
                with open(upath) as f:
                    intact = f.read() == "precious"
            except OSError:
                intact = False
        for h in his:
            try:
                os.close(h)
            except OSError:
                pass
        for x in (holder, other, fdsock, sdsock):
            if x is not None:
                try:
                    x.close()
                except OSError:
                    pass
        return {"sd": sd, "binds": list(binds), "path": path if "unix" in binds else "absent", "busyfor": busyfor if "tcp" in binds else 0,
                "obs": {"out": out, "served": served, "file_intact": bool(intact), "secs": secs}}
    finally:
        if p is not None and p.poll() is None:
            p.terminate()
            try:
                p.wait(6)
            except subprocess.TimeoutExpired:
                for c in rp.children_of(p.pid):
                    try:
                        os.kill(c, 9)
                    except OSError:
                        pass
                p.kill()
                p.wait(5)
        shutil.rmtree(d, ignore_errors=True)


def design(ctx):
    for dev, expect in (((), None), (("ClobberAnything",), "OnlySocketsAreReplaced"), (("RetryForever",), "BoundedWait")):
        label = "_".join(dev) or "design"
        cfgp = os.path.join(tlc.OUT, "cfg", "Listeners_%s.cfg" % label)
        os.makedirs(os.path.dirname(cfgp), exist_ok=True)
        tlc.write_cfg(cfgp, spec="Spec", constants={"Dev": set(dev)},
                      invariants=["TypeOK", "ForeignActivationIgnored", "BoundedWait", "AllAddressesBound", "NoSilentPartialStart"],
                      properties=["OnlySocketsAreReplaced"] + (["StartEnds"] if not dev else []),
                      constraints=["ClockBound"] if dev else [])
        r = tlc.run("Listeners", cfgp, name="Listeners_" + label, workers=2, timeout=300)
        if expect is None:
            if not r.ok:
                raise tlc.TLCError("Listeners design violates %s" % r.violated)
            ctx.add_model(r, "Listeners (start-up)")
        else:
            ctx.coverage.setdefault("deviation_runs", []).append({"dev": dev[0], "expected": expect, "reproduced": expect in r.violated})


def follow(ctx):
    from props.reload_real import _parallel
    plan = [("none", ("tcp",), "absent", 0), ("none", ("unix",), "stale", 0), ("none", ("unix",), "live", 0), ("none", ("unix",), "file", 0),
            ("none", ("tcp", "unix"), "absent", 2), ("none", ("tcp",), "absent", 99), ("mine", ("tcp",), "absent", 0),
            ("other", ("unix", "tcp"), "stale", 0), ("none", ("fd", "tcp"), "absent", 0), ("mine", ("unix",), "file", 0)]
    if not ctx.quick:
        plan = [(sd, b, p, k) for sd in ("none", "mine", "other")
                for b in (("tcp",), ("unix",), ("tcp", "unix"), ("unix", "tcp"), ("fd",), ("fd", "tcp"), ("unix", "fd"))
                for p in (("absent", "stale", "live", "file") if "unix" in b else ("absent",))
                for k in ((0, 2, 99) if "tcp" in b else (0,))]
    try:
        results = _parallel(plan, lambda a, i: run_start(*a), par=10)
    except Exception as e:   # noqa  (outside the property: a failure of this follower is recorded, it does not fail the check)
        ctx.coverage["real_starts_followed"] = "not run: %r" % (e,)
        return
    cfgp = os.path.join(tlc.OUT, "cfg", "ListenersTrace.cfg")
    os.makedirs(os.path.dirname(cfgp), exist_ok=True)
    tlc.write_cfg(cfgp, spec="TSpec", constants={"Dev": set()}, constraints=["Record"], postcondition="Post")
    verdicts, stats = tlc.validate_batch("ListenersTrace", cfgp, results, name="ListenersTrace")
    ctx.add_traces(len(results), stats)
    nd = 0
    for t, (v, stepn) in zip(results, verdicts):
        if v != "ok":
            nd += 1
            if nd <= 4:
                ctx.note_drift("start-up listeners: %s for %s" % (v, t))
    ctx.coverage["real_starts_followed"] = len(results)
