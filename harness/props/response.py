"""C02 (response framing / keep-alive), C09 (status & header injection), C19 (access log).

(D) specs/Response.tla checked exhaustively over request facts x worker policy x application program;
(C) TLC -simulate behaviours of Response.tla (deviations of the current tree on) replayed through the real
    handle() of SyncWorker / ThreadWorker(+finish_request) / AsyncWorker on scripted sockets; the abstract
    wire and the keep-alive outcome are compared with the model's (mismatch = drift);
(P) the recorded exchanges (bytes the client received, read by the independent strict response reader
    harness/oracle_wire.py) are judged by TLC against specs/ResponseTrace.tla.
"""
import json
import time
import os

import tlc
import oracle_wire
from drivers import conn as drv

OUT = tlc.OUT
AS_IS_DEV = []    # SendfileEmptyChunk, SendfileNotCounted: fixed in /repo
NOCL = 99
STATUS_TEXT = {200: "200 OK", 204: "204 No Content", 304: "304 Not Modified", 201: "201 Created",
               404: "404 Not Found", 500: "500 Internal Server Error", 302: "302 Found"}
INVS = ["ExactlyOneHead", "BodyEqualsAppOutputCutToCL", "ConsistentDelimiting", "ChunkedOnlyWhenAllowed",
        "KeepAliveOnlyIfSafe", "NeverExceedsContentLength", "SentEqualsWire"]


def resp_cfg(label, dev=(), maxchunks=2, invs=INVS, live=True):
    cfg = os.path.join(OUT, "cfg", "Response_%s.cfg" % label)
    os.makedirs(os.path.dirname(cfg), exist_ok=True)
    tlc.write_cfg(cfg, spec="Spec", constants={"Dev": set(dev), "MaxChunks": maxchunks, "ChunkSizes": {0, 1, 2},
                                               "CLs": {0, 1, 2, 3}, "Statuses": {200, 204, 304}},
                  invariants=invs, properties=["Terminates"] if live else [])
    return cfg


def request_bytes(rq, uri="/r", extra=b""):
    method = b"HEAD" if rq["head"] else b"GET"
    conn = {"none": b"", "close": b"Connection: close\r\n", "keep": b"Connection: keep-alive\r\n"}[rq["conn"]]
    if rq.get("fold"):
        # the same field folded after the colon (accepted only with permit_obsolete_folding; it means the same)
        conn = conn.replace(b": ", b":\r\n " if rq["conn"] == "close" else b":\r\n\t")
    return method + b" " + uri.encode() + b" HTTP/1.%d\r\nHost: h\r\n" % (rq["ver"] - 10) + conn + extra + b"\r\n"


def chunk_bytes(sizes, base=0):
    out, k = [], base
    for n in sizes:
        out.append(bytes((0x30 + (k + j) % 75) for j in range(n)))
        k += n
    return out


def worker_for(kind, wk, app):
    kw = {"keepalive": 2 if wk["ka"] else 0}
    if wk.get("nosendfile"):
        kw["sendfile"] = False           # --no-sendfile: files are copied through the response writer
    if wk.get("fold"):
        kw["permit_obsolete_folding"] = True
    if kind == "gthread" and wk.get("full"):
        kw.update(worker_connections=1, threads=1)
    cfg = drv.make_cfg(**kw)
    w = drv.make_worker(kind, cfg, app)
    if not wk.get("alive", True):
        w.alive = False
    return cfg, w


FAILS = ["before_start", "after_start", "iter_first", "iter_after_empty", "iter_mid", "write_empty_then_raise", "write_mid"]


def build_app(ap, chunks, calls):
    """application program: optional replacement of the first start_response by a second one with exc_info
    (before any output), optional failure point"""
    import sys as _sys
    fail = ap.get("fail")
    first = ap.get("first")          # [status, cl] of a call that is replaced before any output

    def hdrs_for(cl):
        h = [("Content-Type", "text/plain")]
        if cl != NOCL:
            h.append(("Content-Length", str(cl)))
        return h

    readin = ap.get("readin", "none")     # when the application reads the request body: before / mid / after its output

    def app(environ, start_response):
        calls.append(1)
        if fail == "before_start":
            raise drv.AppError("boom")
        if readin == "before":
            environ["wsgi.input"].read()
        if first:
            start_response(STATUS_TEXT.get(first[0], "%d X" % first[0]), hdrs_for(first[1]) + [("X-First", "1")])
            try:
                raise drv.AppError("replace")
            except drv.AppError:
                write = start_response(STATUS_TEXT.get(ap["status"], "%d X" % ap["status"]), hdrs_for(ap["cl"]), _sys.exc_info())
        else:
            write = start_response(STATUS_TEXT.get(ap["status"], "%d X" % ap["status"]), hdrs_for(ap["cl"]))
        if fail == "after_start":
            raise drv.AppError("boom")
        if fail == "write_empty_then_raise":
            write(b"")
            raise drv.AppError("boom")
        if fail == "write_mid":
            write(chunks[0] if chunks else b"x")
            raise drv.AppError("boom")
        if ap["prod"] == "write" and not fail:
            for i, c in enumerate(chunks):
                write(c)
                if readin == "mid" and i == 0:
                    environ["wsgi.input"].read()
            if readin == "after" or (readin == "mid" and not chunks):
                environ["wsgi.input"].read()
            return []
        if ap["prod"] in ("file", "filenofd") and not fail:
            return _file_iter(environ, ap, chunks)
        if readin in ("mid", "after") and not fail:
            def streaming():
                # transform style (PEP 3333): output has started when the request body is read
                for i, c in enumerate(chunks):
                    yield c
                    if readin == "mid" and i == 0:
                        environ["wsgi.input"].read()
                if readin == "after" or not chunks:
                    environ["wsgi.input"].read()
            return streaming()

        def gen():
            if fail == "iter_first":
                raise drv.AppError("boom")
            if fail == "iter_after_empty":
                yield b""
                raise drv.AppError("boom")
            for i, c in enumerate(chunks):
                yield c
                if fail == "iter_mid" and i == 0:
                    raise drv.AppError("boom")
            if fail == "iter_mid":
                raise drv.AppError("boom")
        return gen() if fail else list(chunks)
    return app


def _file_iter(environ, ap, chunks):
    import io as _io
    import tempfile as _tf
    data = b"".join(chunks)
    if ap["prod"] == "file" and ap.get("pipe"):
        # a file-like object with a real descriptor that cannot seek (the read end of a pipe, a subprocess' stdout)
        import os as _os
        rfd, wfd = _os.pipe()
        _os.write(wfd, data)
        _os.close(wfd)
        return environ["wsgi.file_wrapper"](_os.fdopen(rfd, "rb", 0))
    if ap["prod"] == "file":
        f = _tf.TemporaryFile(dir=drv.SCRATCH)
        f.write(data)
        f.flush()
    else:
        f = _io.BytesIO(data)
    f.seek(ap.get("off", 0))
    if ap.get("dribble"):
        # a file-like object whose read(n) may return fewer bytes than asked for before the end (a pipe, a socket file)
        f = _Dribble(f, ap["dribble"])
    return environ["wsgi.file_wrapper"](f)


class _Dribble:
    def __init__(self, f, k):
        self.f, self.k = f, k

    def read(self, n=-1):
        return self.f.read(self.k if n is None or n < 0 or n > self.k else n)

    def close(self):
        self.f.close()


def exchange(rq, wk, ap, send_fail_at=None):
    """-> (trace dict, abstract wire for conformance, raw Result)"""
    chunks = chunk_bytes(ap["chunks"])
    status = ap["status"]
    calls = []
    app = build_app(ap, chunks, calls)
    cfg, w = worker_for(wk["kind"], wk, app)
    extra = b"Expect: 100-continue\r\n" if ap.get("expect") else b""
    nreq = ap.get("reqbody", 0)
    if nreq:
        extra += b"Content-Length: %d\r\n" % nreq
    r = drv.serve(wk["kind"], cfg, [request_bytes(rq, extra=extra) + b"q" * nreq], app, worker=w, send_fail_at=send_fail_at)
    produced = b"".join(chunks)
    if ap["prod"] in ("file", "filenofd"):
        produced = produced[ap.get("off", 0):]
    nobody = rq["head"] or status in (204, 304)
    expected = b"" if nobody else (produced[:ap["cl"]] if ap["cl"] != NOCL else produced)
    fail = ap.get("fail") or "none"
    wb = ((ap["cl"] == NOCL or len(produced) == ap["cl"] or nobody) and (not nobody or len(produced) == 0))
    # did the failure strike after the first byte of the application's response could have been sent?
    started = fail in ("iter_after_empty", "iter_mid", "write_empty_then_raise", "write_mid")
    recs = oracle_wire.read_responses(r.wire, r.closed, ["HEAD" if rq["head"] else "GET"])
    ev = []
    if recs:
        f = recs[0]
        junk = sum(x.get("junk", 0) for x in recs[1:]) + sum(1 for x in recs[1:] if x.get("wellformed"))
        if f.get("wellformed"):
            junk += f.get("junk", 0)
            ev.append({"e": "resp", "wellformed": True, "nresp": sum(1 for x in recs if x.get("wellformed")),
                       "junk": junk, "status": f["status"], "conn": f["conn"], "te": f["te"], "cl": f["cl"],
                       "mode": f["mode"], "chunks": f["chunks"], "body": len(f["body"]),
                       "bodymatch": f["body"] == expected, "complete": bool(f["complete"])})
        else:
            ev.append({"e": "resp", "wellformed": False, "nresp": 0, "junk": f.get("junk", 0), "status": 0,
                       "conn": "none", "te": False, "cl": -1, "mode": "none", "chunks": [], "body": 0,
                       "bodymatch": False, "complete": False})
    else:
        ev.append({"e": "resp", "wellformed": False, "nresp": 0, "junk": 0, "status": 0, "conn": "none", "te": False,
                   "cl": -1, "mode": "none", "chunks": [], "body": 0, "bodymatch": False, "complete": False})
    is_open = bool((r.kept and not r.closed) or r.kept_until_eof)
    ev.append({"e": "after", "open": is_open})
    trace = {"rq": rq, "app": {"status": status, "cl": -1 if ap["cl"] == NOCL else ap["cl"], "total": len(produced),
                               "wb": bool(wb), "fail": fail, "started": bool(started)}, "wk": wk["kind"], "ev": ev}
    awire = None
    if recs and recs[0].get("wellformed"):
        f = recs[0]
        awire = {"conn": f["conn"], "te": f["te"], "cl": f["cl"], "chunks": f["chunks"] if f["te"] else None,
                 "data": len(f["body"]), "open": is_open, "nresp": len(recs)}
    return trace, awire, r


def model_awire(final):
    """abstract wire of a Response.tla final state"""
    wire = final["wire"]
    if not wire or wire[0]["t"] != "head":
        return None
    h = wire[0]
    body = wire[1:]
    chunks = [s["n"] for s in body if s["t"] == "chunk"]
    # a zero-size chunk segment is a terminating chunk on the wire: what follows is junk for a reader
    data = sum(s["n"] for s in body if s["t"] in ("chunk", "data"))
    return {"conn": h["conn"], "te": h["te"], "cl": -1 if h["cl"] == NOCL else h["cl"],
            "chunks": chunks if h["te"] else None, "data": data, "open": final["open"]}


def sig_of(v, t, ap):
    return "C02/%s/prod=%s,ver=%d,head=%s,cl=%s,empty=%s,wk=%s" % (
        v, ap["prod"], t["rq"]["ver"], t["rq"]["head"], "none" if t["app"]["cl"] < 0 else "set",
        t["app"]["total"] == 0, t["wk"] if v.startswith("KeptOpen") else "*") + \
        (",request-body-read=%s%s" % (ap["readin"], ",expect" if ap.get("expect") else "") if ap.get("reqbody") else "")


def c02(ctx):
    rng = ctx.rng
    r = tlc.run("Response", resp_cfg("design", maxchunks=2 if ctx.quick else 3), name="Response_design",
                workers=12, timeout=2400)
    if not r.ok:
        raise tlc.TLCError("Response design violates %s" % r.violated)
    ctx.add_model(r, "design")
    ctx.coverage["exhaustive"] = True
    for dev, inv in (("SendfileEmptyChunk", "ConsistentDelimiting"),):
        rr = tlc.run("Response", resp_cfg("dev_" + dev, dev=[dev], maxchunks=1, invs=[inv], live=False),
                     name="Response_dev_" + dev, workers=8, timeout=900)
        ctx.coverage.setdefault("deviation_runs", []).append({"dev": dev, "expected": inv, "reproduced": inv in rr.violated})
    # (C) spec -> code
    behs, _ = tlc.simulate_behaviours("Response", resp_cfg("asis", dev=AS_IS_DEV, maxchunks=3, invs=[], live=False),
                                      num=1500 if ctx.quick else 12000, depth=12, seed=ctx.seed, name="Response_sim")
    traces, metas = [], []
    ndrift = 0
    for beh in behs:
        init, final = beh[0][1], beh[-1][1]
        if final["pc"] != "done":
            continue
        rq, wk, ap = init["rq"], init["wk"], dict(init["app"])
        ap["chunks"] = list(ap["chunks"])
        t, aw, res = exchange(rq, wk, ap)
        mw = model_awire(final)
        cmpkeys = ("conn", "te", "cl", "open")
        if aw is None or mw is None or any(aw[k] != mw[k] for k in cmpkeys) or \
                (mw["te"] and 0 not in mw["chunks"] and (aw["chunks"] != mw["chunks"])) or \
                (not mw["te"] and not (rq["head"] or ap["status"] in (204, 304)) and aw["data"] != mw["data"]):
            ndrift += 1
            if ndrift <= 5:
                ctx.note_drift("Response behaviour not followed: rq=%s wk=%s app=%s model=%s code=%s" % (rq, wk, ap, mw, aw))
        traces.append(t)
        metas.append({"src": "sim", "rq": rq, "wk": wk, "app": ap})
    ctx.coverage["replayed_behaviours"] = len(traces)
    # (P) seeded random programs beyond the model's constants
    n_extra = 1500 if ctx.quick else 20000
    for _ in range(n_extra):
        rq = {"ver": rng.choice([10, 11]), "head": rng.random() < 0.2, "conn": rng.choice(["none", "close", "keep"])}
        kind = rng.choice(["sync", "gthread", "async"])
        wk = {"kind": kind, "ka": rng.random() < 0.8, "full": kind == "gthread" and rng.random() < 0.2,
              "alive": rng.random() < 0.9}
        status = rng.choice([200, 200, 200, 201, 404, 204, 304, 302, 500])
        prod = rng.choice(["iter", "write", "file", "filenofd"])
        if prod == "file" and rng.random() < 0.3:
            wk["nosendfile"] = True
        dribble = rng.choice([1, 7, 1000]) if prod == "filenofd" and rng.random() < 0.3 else 0
        if rq["conn"] != "none" and rng.random() < 0.15:
            rq["fold"] = wk["fold"] = True
        nch = rng.randint(0, 5)
        sizes = [rng.choice([0, 0, 1, 2, 5, 100, 8192, 8193, 20000]) for _ in range(nch)]
        total = sum(sizes)
        off = rng.choice([0, 0, 1, 3]) if prod in ("file", "filenofd") else 0
        nobody = rq["head"] or status in (204, 304)
        if nobody and rng.random() < 0.8:
            sizes, total = [], 0
        produced = max(0, total - off) if prod in ("file", "filenofd") else total
        clchoice = rng.random()
        cl = NOCL if clchoice < 0.4 else produced if clchoice < 0.85 else rng.choice([0, 1, max(0, produced - 1), produced + 3])
        ap = {"status": status, "cl": cl, "prod": prod, "chunks": sizes, "off": off}
        pipe = prod == "file" and 0 < total <= 60000 and not wk.get("nosendfile") and rng.random() < 0.3
        if dribble:
            ap["dribble"] = dribble
        if pipe:
            ap["pipe"], ap["off"] = True, 0
            produced = total
            if cl != NOCL:
                ap["cl"] = cl = total
        x = rng.random()
        if x < 0.15:
            # the application fails at a chosen point (before / after start_response, before the first byte,
            # after an empty first item, in the middle of the body)
            ap["fail"] = rng.choice(FAILS)
            rq["head"] = False                      # (the server's own error page always carries a body)
            ap["status"] = status = rng.choice([200, 201, 404])
            ap["prod"] = "write" if ap["fail"].startswith("write") else "iter"
            ap["off"] = 0
            if ap["fail"] in ("iter_mid", "write_mid") and not [n for n in sizes[:1] if n > 0]:
                ap["chunks"] = [5] + sizes
            if cl != NOCL:
                ap["cl"] = sum(ap["chunks"])
        elif x < 0.3:
            # an earlier start_response call (own status / Content-Length) is replaced with exc_info before any output
            ap["first"] = [rng.choice([200, 201, 404]), rng.choice([NOCL, 0, 7, 100])]
        if rng.random() < 0.1:
            ap["expect"] = True        # the server answers "100 Continue" first; still exactly one final response
        if rng.random() < 0.2 and "fail" not in ap:
            # the request carries a body; the application reads it before, in the middle of or after its output, or not
            # at all (then the server has to get past it)
            ap["reqbody"] = rng.choice([1, 10, 3000])
            ap["readin"] = rng.choice(["none", "before", "mid", "after"])
            ap["expect"] = rng.random() < 0.6
        t, aw, res = exchange(rq, wk, ap)
        traces.append(t)
        metas.append({"src": "rand", "rq": rq, "wk": wk, "app": ap})
    real_exchanges(ctx, traces, metas)
    verdicts, stats = tlc.validate_batch("ResponseTrace", "ResponseTrace.cfg", traces, name="ResponseTrace_C02", chunk=5000)
    ctx.add_traces(len(traces), stats)
    for t, m, (v, step) in zip(traces, metas, verdicts):
        if v == "ok":
            continue
        ctx.violation(sig_of(v, t, m["app"]), "%s: rq=%s wk=%s app=%s events=%s" % (v, m["rq"], m["wk"], m["app"], t["ev"]),
                      {"trace": t, "meta": m})
    for t, m in list(zip(traces, metas))[:2] + list(zip(traces, metas))[-2:]:
        ctx.sample({"rq": t["rq"], "app": m["app"], "wk": m["wk"], "events": t["ev"]})
    ctx.assumptions += ["well-behaved application = declared Content-Length equals produced length, no body for HEAD/204/304",
                        "sockets are scripted in-process objects (sendfile emulated with os.pread); TLS is exercised in C05 only",
                        "bytes -> response records by harness/oracle_wire.py (strict RFC 9112 response reader)"]


def real_exchanges(ctx, traces, metas):
    """the same programs on REAL servers of all four worker classes (real sockets, real sendfile, gevent / eventlet
    hubs): raw bytes read by the strict response reader"""
    import socket
    from drivers import realproc as rp
    from props.reload_real import _parallel
    rng = ctx.rng
    classes = ["sync", "gthread", "gevent", "eventlet"]
    nper = 25 if ctx.quick else 150
    progs = []
    for wkc in classes:
        lst = []
        for _ in range(nper):
            rq = {"ver": rng.choice([10, 11]), "head": rng.random() < 0.15, "conn": rng.choice(["none", "close", "keep"])}
            status = rng.choice([200, 200, 201, 404, 204, 304])
            prod = rng.choice(["iter", "write", "file", "filenofd"])
            nobody = rq["head"] or status in (204, 304)
            sizes = [] if nobody else [rng.choice([0, 0, 1, 2, 5, 100, 8192, 70000]) for _ in range(rng.randint(0, 4))]
            off = rng.choice([0, 0, 1]) if prod in ("file", "filenofd") else 0
            total = sum(sizes)
            produced = max(0, total - off) if prod in ("file", "filenofd") else total
            cl = NOCL if rng.random() < 0.5 else produced
            if produced > 1 and rng.random() < 0.3:
                # a range-style answer: fewer bytes announced than the producer holds (the surplus must not be sent)
                cl = rng.choice([1, produced // 2, produced - 1] + ([10000, 8193, 20000] if produced > 20000 else []))
            lst.append((rq, {"status": status, "cl": cl, "prod": prod, "chunks": sizes, "off": off}))
        # range-style answers from a real file through each class's own sendfile path
        for clv, offv, ver in ((10000, 1, 11), (8193, 0, 11), (20000, 1, 10), (8192, 0, 11)):
            lst.append(({"ver": ver, "head": False, "conn": "keep"},
                        {"status": 200, "cl": clv, "prod": "file", "chunks": [70000], "off": offv}))
        # a response that takes longer than the keep-alive time to produce (the idle timer must not run meanwhile)
        for clv in (300, NOCL):
            lst.append(({"ver": 11, "head": False, "conn": "keep"},
                        {"status": 200, "cl": clv, "prod": "iter", "chunks": [100, 100, 100], "off": 0, "d": 0.9}))
        # a large response on a REUSED keep-alive connection to a client that starts reading late
        for clv in (8400000, NOCL):
            lst.append(({"ver": 11, "head": False, "conn": "keep"},
                        {"status": 200, "cl": clv, "prod": "iter", "chunks": [70000], "rep": 120, "off": 0, "reuse": True}))
        progs.append((wkc, lst))
    # the same over TLS listeners (sendfile is not used there: the file is copied through the TLS layer)
    for wkc in (["gthread"] if ctx.quick else classes):
        progs.append((wkc + "+tls", [x for x in progs[classes.index(wkc)][1] if x[1]["prod"] in ("file", "iter")][:12]))
    # ... and with --no-sendfile
    for wkc in (["sync"] if ctx.quick else classes):
        progs.append((wkc + "+nosendfile", [x for x in progs[classes.index(wkc)][1] if x[1]["prod"] == "file"][:12]))

    def one_server(item, i):
        wkc, lst = item
        tls = wkc.endswith("+tls")
        nosf = wkc.endswith("+nosendfile")
        wkc = wkc.split("+")[0]
        s = rp.Server(wkc, workers=1, threads=2 if wkc == "gthread" else None,
                      args=["--keep-alive", "2"] + (["--no-sendfile"] if nosf else []), name="c02", tls=tls)
        out = []
        try:
            s.start()
            s.wait_booted(1)
            for rq, ap in lst:
                if ap.get("reuse") and wkc == "sync":
                    continue           # the sync worker serves one request per connection
                path = "/gen?prod=%s&sizes=%s&cl=%s&status=%d&off=%d" % (
                    ap["prod"], ",".join(map(str, ap["chunks"])), "none" if ap["cl"] == NOCL else ap["cl"], ap["status"], ap["off"])
                if ap.get("d"):
                    path += "&d=%s" % ap["d"]
                if ap.get("rep"):
                    path += "&rep=%d" % ap["rep"]
                c = s.connect(timeout=8)
                if ap.get("reuse"):
                    st0, body0, info0 = s.get("/pid", sock=c, keepalive=True)
                    time.sleep(0.3)          # the connection is parked in the worker now
                c.sendall(request_bytes(rq, uri=path))
                if ap.get("reuse"):
                    time.sleep(1.2)          # the client reads late: the server's send blocks on a full socket buffer
                wire, closed = b"", False
                c.settimeout(1.2 + (4 * ap["d"] if ap.get("d") else 0))
                try:
                    while True:
                        d = c.recv(1 << 16)
                        if not d:
                            closed = True
                            break
                        wire += d
                except socket.timeout:
                    pass
                except OSError:
                    closed = True
                c.close()
                out.append((rq, ap, wire, closed))
        finally:
            s.cleanup()
        return wkc, out
    for wkc, out in _parallel(progs, one_server, par=5):
        for rq, ap, wire, closed in out:
            chunks = chunk_bytes(ap["chunks"] * ap.get("rep", 1))
            produced = b"".join(chunks)
            if ap["prod"] in ("file", "filenofd"):
                produced = produced[ap["off"]:]
            nobody = rq["head"] or ap["status"] in (204, 304)
            expected = b"" if nobody else (produced[:ap["cl"]] if ap["cl"] != NOCL else produced)
            recs = oracle_wire.read_responses(wire, closed, ["HEAD" if rq["head"] else "GET"])
            f = recs[0] if recs else {"wellformed": False}
            if f.get("wellformed"):
                junk = sum(x.get("junk", 0) for x in recs[1:]) + sum(1 for x in recs[1:] if x.get("wellformed")) + f.get("junk", 0)
                ev = [{"e": "resp", "wellformed": True, "nresp": sum(1 for x in recs if x.get("wellformed")), "junk": junk,
                       "status": f["status"], "conn": f["conn"], "te": f["te"], "cl": f["cl"], "mode": f["mode"],
                       "chunks": f["chunks"], "body": len(f["body"]), "bodymatch": f["body"] == expected,
                       "complete": bool(f["complete"])}]
            else:
                ev = [{"e": "resp", "wellformed": False, "nresp": 0, "junk": len(wire), "status": 0, "conn": "none", "te": False,
                       "cl": -1, "mode": "none", "chunks": [], "body": 0, "bodymatch": False, "complete": False}]
            ev.append({"e": "after", "open": not closed})
            traces.append({"rq": rq, "app": {"status": ap["status"], "cl": -1 if ap["cl"] == NOCL else ap["cl"], "total": len(produced),
                                              "wb": True, "fail": "none", "started": False}, "wk": wkc, "ev": ev})
            metas.append({"src": "real", "rq": rq, "wk": {"kind": wkc}, "app": ap})
    ctx.coverage["real_process_exchanges"] = sum(len(l) for _, l in progs)


def replay(ctx, data):
    case = data["case"]
    m = case["meta"]
    if data["property"] == "C02":
        t, aw, res = exchange(m["rq"], m["wk"], m["app"])
        print("wire:", res.wire[:400], "closed:", res.closed, "kept:", res.kept)
        verdicts, _ = tlc.validate_batch("ResponseTrace", "ResponseTrace.cfg", [t], name="ResponseTrace_replay")
        print("verdict:", verdicts[0])
        return 1 if verdicts[0][0] != "ok" else 0
    return replay_other(ctx, data)


def replay_other(ctx, data):
    print(json.dumps(data["case"], default=str)[:2000])
    return 0


CHECKS = {"C02": c02}


# ---------------------------------------------------------------------------------------------
# C09: application-supplied status and headers cannot split or forge a response

CTLS = [chr(c) for c in list(range(1, 9)) + [11, 12] + list(range(14, 32)) + [127]]
STATUS = {
    "ok": ["200 OK", "404 Not Found", "200 ", "201 Created caf\xe9", "299 \tWeird Reason"],
    # (also directly against the numeric code, where int() / str.split() would strip them)
    "cr": ["200 OK\rX", "200\rOK", "200 OK\r", "200\r OK", "\r200 OK"],
    "lf": ["200 OK\nX", "200 OK\n", "200\nOK", "200\n folded", "\n200 OK"],
    "nul": ["200 O\x00K", "200 OK\x00", "200\x00 OK"],
    "inject": ["200 OK\r\nX-Injected: yes", "200 OK\r\n\r\n<html>", "200 OK\r\nContent-Length: 0\r\n\r\nHTTP/1.1 200 OK",
               "200\r\n OK", "200\r\n\r\n <html>", "\r\n200 OK", "200\r\n X-Injected: yes"],
    "nonlatin1": ["200 ĀK", "200 OK €"],
    "nonnumeric": ["OK 200", "abc", "2x0 OK"],
    "ctl": ["200 O\x01K", "200 \x7f", "200 OK\x0b", "200\x0b OK", "\x0c200 OK", "200\x1c OK"],
}
NAMES = {
    "tok": ["X-App", "Content-Type", "x-1", "X_Under", "ETag", "Set-Cookie", "!#$%&'*+-.^_`|~Az09"],
    "hop": ["Connection", "Transfer-Encoding", "Keep-Alive", "TE", "Trailers", "Proxy-Authenticate", "Proxy-Authorization",
            "Server", "Date", "CONNECTION", "transfer-encoding", "keep-alive", "tE"],
    "upgrade": ["Upgrade", "upgrade", "UPGRADE"],
    "cl": ["Content-Length", "content-length"],
    "sp_in": ["X App", " X-App", "X-App "],
    "colon_in": ["X:App", "X-App:"],
    "cr_in": ["X\rApp", "X-App\r"],
    "lf_in": ["X\nApp", "X-App\nX-Injected"],
    "nul_in": ["X\x00App"],
    "empty": [""],
    "obs_in": ["X\xe9", "\xffX", "X-Stra\xdfe", "\xdf", "X-\xb5", "X-\xaa"],
    "paren": ["X(App)", "X@App", "X,App", "X/App", "[X]", "X=App", "X\"App\""],
}
VALUES = {
    "plain": ["v1", "text/plain", "a=b; Path=/", "x" * 300, "z" * 20000],
    "padded": ["  v1\t", "\tv1", "v1   "],
    "cr": ["a\rb", "a\r", "\ra"],
    "lf": ["a\nb", "a\n", "a\n b", "q" * 9000 + "\nb"],
    "nul": ["a\x00b", "\x00", "n" * 8200 + "\x00"],
    # (also far into a long value: validating only a prefix of the value is not enough)
    "crlf_inject": ["a\r\nX-Injected: yes", "a\r\n\r\n<html>", "a\r\nSet-Cookie: x=y", "x" * 8190 + "\r\nSet-Cookie: forged=1",
                    "y" * 70000 + "\r\n\r\n<html>",
                    # shaped like obsolete line folding (CR LF followed by a blank)
                    "first\r\n second", "a\r\n\tX-Injected: yes", "a\r\n \r\n  Set-Cookie: sid=forged", "a \r\n b"],
    "ctl": ["a" + c + "b" for c in CTLS],
    "obs": ["caf\xe9", "\x80\xff"],
    "nonlatin1": ["cafĀ", "€"],
    "empty": [""],
}
HOP_VALUES = {"Connection": "close", "Transfer-Encoding": "chunked", "Upgrade": "websocket"}


def concrete_call(c, rng, body_len, exhaustive_slot=None):
    st = rng.choice(STATUS[c["st"]])
    hs = []
    for h in c["hs"]:
        n = rng.choice(NAMES[h["n"]])
        if h["n"] == "hop" and n.lower() == "connection" and h["v"] == "plain":
            v = rng.choice(["close", "upgrade", "Upgrade", "keep-alive", "v1"])
        elif h["n"] == "cl" and h["v"] == "plain":
            v = str(body_len)
        elif h["n"] == "cl" and h["v"] in ("cr", "lf", "crlf_inject", "nul", "ctl") and rng.random() < 0.7:
            # digits with the forbidden bytes around them (int() would strip CR / LF / VT / FF)
            d = str(body_len)
            v = {"cr": rng.choice([d + "\r", "\r" + d]), "lf": rng.choice([d + "\n", "\n" + d, d + "\n "]),
                 "crlf_inject": rng.choice([d + "\r\n", "\r\n " + d, d + "\r\n\r\n", d + "\r\nX-Injected: yes"]),
                 "nul": rng.choice([d + "\x00", "\x00" + d]), "ctl": rng.choice([d + "\x0b", "\x0c" + d, d + "\x1c"])}[h["v"]]
        elif h["n"] == "upgrade" and h["v"] == "plain":
            v = "websocket"
        else:
            v = rng.choice(VALUES[h["v"]])
        hs.append((n, v))
    return st, hs


def c09_exchange(case, rng, kind="sync"):
    """case: c1, c2 (or None), exc, between -> trace"""
    body = b"body"
    st1, hs1 = concrete_call(case["c1"], rng, len(body))
    if case.get("force_upgrade") and hs1:
        hs1[0] = (rng.choice(["Connection", "connection", "CONNECTION"]), rng.choice(["upgrade", "Upgrade"]))
    st2, hs2 = concrete_call(case["c2"], rng, len(body)) if case["exc"] != "none" else (None, None)
    ev = []
    holder = {}
    late_append = rng.random() < 0.25

    def app(environ, start_response):
        sock = holder["sock"]
        try:
            mine = list(hs1)
            write = start_response(st1, mine)
            ev.append({"e": "call", "who": 1, "raised": False, "sent": len(sock.wire)})
            if late_append:
                # the application goes on using ITS list after the call (a tracing middleware appends to it): what was
                # accepted is what was passed when start_response() was called
                mine.append(("X-Late", "t1\r\nSet-Cookie: sid=late"))
                mine.append(("X Late", "plain"))
        except BaseException:
            ev.append({"e": "call", "who": 1, "raised": True, "sent": len(sock.wire)})
            raise
        if case["between"]:
            write(b"bo")
        if case["exc"] != "none":
            before = len(sock.wire)
            try:
                try:
                    raise drv.AppError("late")
                except drv.AppError:
                    import sys as _s
                    if case["exc"] == "given":
                        start_response(st2, list(hs2), _s.exc_info())
                    else:
                        start_response(st2, list(hs2))
                ev.append({"e": "call", "who": 2, "raised": False, "sent": before})
            except BaseException:
                ev.append({"e": "call", "who": 2, "raised": True, "sent": before})
                if not case.get("swallow"):
                    raise
                # the application catches the refusal and carries on with the response it had started
        return [body]

    # the switches that relax REQUEST parsing say nothing about what an application may put into a response
    relaxed = rng.random() < 0.3
    cfg = drv.make_cfg(keepalive=2, **({"permit_obsolete_folding": True, "strip_header_spaces": True, "header_map": "dangerous",
                                        "permit_unconventional_http_method": True, "permit_unconventional_http_version": True,
                                        "casefold_http_method": True} if relaxed else {}))
    w = drv.make_worker(kind, cfg, app)
    sock = drv.FakeSock([request_bytes({"ver": 11, "head": False, "conn": "none"})])
    holder["sock"] = sock
    try:
        if kind == "gthread":
            conn = drv.TConn(cfg, sock, ("127.0.0.1", 1), ("127.0.0.1", 8000))
            conn.init()
            w.handle(conn)
        else:
            w.handle(w.sockets[0], sock, ("127.0.0.1", 1))
    except BaseException as e:   # noqa
        ev.append({"e": "call", "who": 1, "raised": True, "sent": -1}) if not ev else None
    wire = bytes(sock.wire)
    head = {"e": "head", "present": False, "who": -1, "server_ok": True, "lines": [], "extra": 0}
    i = wire.find(b"\r\n\r\n")
    if wire:
        head["present"] = True
        raw = wire[:i] if i >= 0 else wire
        lines = raw.split(b"\r\n")
        sl = lines[0].decode("latin-1")
        who = -1
        raised2 = any(e["e"] == "call" and e["who"] == 2 and e["raised"] for e in ev)
        called2 = any(e["e"] == "call" and e["who"] == 2 for e in ev)
        cands = [k for k, st in ((1, st1), (2, st2)) if st is not None and sl == "HTTP/1.1 " + st]
        if cands == [1, 2]:
            who = 2 if (called2 and not raised2) else 1
        elif cands:
            who = cands[0]
        if who == -1 and sl in ("HTTP/1.1 500 Internal Server Error", "HTTP/1.1 400 Bad Request"):
            who = 0        # the server's own error page
        head["who"] = who
        rest = [x.decode("latin-1") for x in lines[1:]]
        if who == 0:
            names = [x.split(":", 1)[0].lower() for x in rest]
            head["server_ok"] = names == ["connection", "content-type", "content-length"]
        else:
            names = [x.split(":", 1)[0].lower() for x in rest[:4]]
            nserver = 3
            ok = names[:3] == ["server", "date", "connection"]
            if len(rest) > 3 and rest[3] == "Transfer-Encoding: chunked":
                nserver = 4
            head["server_ok"] = ok
            accepted2 = called2 and not raised2 and case["exc"] == "given"
            order = ((2, hs2), (1, hs1)) if accepted2 else ((1, hs1), (2, hs2))
            used = set()
            for x in rest[nserver:]:
                found = None
                for who_k, hs in order:
                    for idx, (n, v) in enumerate(hs or []):
                        try:
                            if (who_k, idx) not in used and x == "%s: %s" % (n, v.strip(" \t")):
                                found = [who_k, idx + 1]
                                used.add((who_k, idx))
                                break
                        except Exception:
                            pass
                    if found:
                        break
                if found:
                    head["lines"].append(found)
                else:
                    head["extra"] += 1
    ev.append(head)
    tr = {"c1": case["c1"], "c2": case["c2"] if case["exc"] != "none" else {"st": "ok", "hs": []},
          "exc": case["exc"], "between": case["between"], "ev": ev}
    meta = {"case": case, "st1": st1, "hs1": hs1, "st2": st2, "hs2": hs2, "kind": kind, "wire": wire[:300].decode("latin-1"),
            "relaxed": relaxed}
    return tr, meta


def rh_cfg(label, dev=(), invs=("RefusedBeforeAnyByte", "HeadIsExactly", "HopByHopNotForwarded", "SecondCallRules"), live=True):
    cfg = os.path.join(OUT, "cfg", "RespHead_%s.cfg" % label)
    os.makedirs(os.path.dirname(cfg), exist_ok=True)
    tlc.write_cfg(cfg, spec="Spec", constants={"Dev": set(dev), "MaxHdrs": 1}, invariants=list(invs),
                  properties=["Terminates"] if live else [])
    return cfg


def c09_concurrent(ctx):
    """a real threaded server answers requests of several clients at the same time (the application computes for a few
    milliseconds per request, so handler threads are pre-empted inside their responses): every response carries its own
    status line, header lines and body only.  Judged by specs/ConcHeadTrace.tla."""
    import threading
    from drivers import realproc as rp
    nclients, per = (8, 60) if ctx.quick else (8, 400)
    traces = []
    for wk, threads in (("gthread", 8),) if ctx.quick else (("gthread", 8), ("gthread", 3), ("gevent", None), ("eventlet", None)):
        s = rp.Server(wk, workers=1, threads=threads, args=["--keep-alive", "5"], name="c09c")
        evs = [[] for _ in range(nclients)]
        try:
            s.start()
            s.wait_booted(1)

            def client(ci):
                c = None
                for k in range(per):
                    rid = "c%dn%d" % (ci, k)
                    try:
                        if c is None:
                            c = s.connect(timeout=10)
                        c.sendall(("GET /hid?id=%s&n=120&spin=4 HTTP/1.1\r\nHost: h\r\n\r\n" % rid).encode())
                        buf = b""
                        while b"\r\n\r\n" not in buf:
                            d = c.recv(65536)
                            if not d:
                                raise OSError("closed")
                            buf += d
                        head, _, rest = buf.partition(b"\r\n\r\n")
                        lines = head.decode("latin-1").split("\r\n")
                        want = len("id=%s" % rid)
                        while len(rest) < want:
                            d = c.recv(65536)
                            if not d:
                                break
                            rest += d
                        own = [x for x in lines[1:] if x.startswith("X-R%s-" % rid)]
                        foreign = [x for x in lines[1:] if x.startswith("X-R") and not x.startswith("X-R%s-" % rid)]
                        evs[ci].append({"e": "resp", "same": lines[0] == "HTTP/1.1 200 R%s" % rid, "foreign": len(foreign),
                                        "missing": 120 - len(own), "body_same": rest[:want] == ("id=%s" % rid).encode()})
                    except OSError:
                        if c is not None:
                            c.close()
                        c = None
                if c is not None:
                    c.close()
            ths = [threading.Thread(target=client, args=(i,)) for i in range(nclients)]
            [t.start() for t in ths]
            [t.join() for t in ths]
        finally:
            s.cleanup()
        for ci in range(nclients):
            traces.append(({"ev": evs[ci]}, {"wk": wk, "threads": threads, "client": ci, "responses": len(evs[ci])}))
    if sum(m["responses"] for _, m in traces) < nclients * per // 2:
        raise RuntimeError("concurrent-head run got only %d responses" % sum(m["responses"] for _, m in traces))
    verdicts, stats = tlc.validate_batch("ConcHeadTrace", "ConcHeadTrace.cfg", [t for t, _ in traces], name="ConcHeadTrace_C09")
    ctx.add_traces(len(traces), stats)
    ctx.coverage["concurrent_responses_real_server"] = sum(m["responses"] for _, m in traces)
    for (t, m), (v, step) in zip(traces, verdicts):
        if v != "ok":
            ctx.violation("C09/%s/real-concurrent,wk=%s" % (v, m["wk"]), "%s: %s event %d of this client: %s"
                          % (v, m, step, t["ev"][step - 1]), {"trace": t, "meta": m})


def c09(ctx):
    rng = ctx.rng
    r = tlc.run("RespHead", rh_cfg("design"), name="RespHead_design", workers=12, timeout=1200)
    if not r.ok:
        raise tlc.TLCError("RespHead design violates %s" % r.violated)
    ctx.add_model(r, "design")
    ctx.coverage["exhaustive"] = True
    for dev, inv in (("StatusUnvalidated", "RefusedBeforeAnyByte"), ("HeadersNotReset", "HeadIsExactly")):
        rr = tlc.run("RespHead", rh_cfg("dev_" + dev, dev=[dev], invs=[inv], live=False), name="RespHead_dev_" + dev,
                     workers=8, timeout=600)
        ctx.coverage.setdefault("deviation_runs", []).append({"dev": dev, "expected": inv, "reproduced": inv in rr.violated})
    behs, _ = tlc.simulate_behaviours("RespHead", rh_cfg("sim", invs=[], live=False), num=1500 if ctx.quick else 15000,
                                      depth=8, seed=ctx.seed, name="RespHead_sim")
    traces, metas = [], []

    def norm(c):
        return {"st": c["st"], "hs": [dict(h) for h in c["hs"]]}
    cases = []
    for beh in behs:
        s0 = beh[0][1]
        cases.append({"c1": norm(s0["c1"]), "c2": norm(s0["c2"]), "exc": s0["exc"], "between": s0["sendBetween"]})
    # every single kind at least once in each position, plus two-header combinations
    kinds_st = list(STATUS)
    for st in kinds_st:
        for n in NAMES:
            for v in VALUES:
                if rng.random() < (0.25 if ctx.quick else 1.0):
                    cases.append({"c1": {"st": st, "hs": [{"n": n, "v": v}]}, "c2": None, "exc": "none", "between": rng.random() < 0.3})
    for _ in range(300 if ctx.quick else 5000):
        hs = [{"n": rng.choice(list(NAMES)), "v": rng.choice(list(VALUES))} for _ in range(rng.randint(0, 3))]
        hs2 = [{"n": rng.choice(["tok", "hop", "cr_in", "cl"]), "v": rng.choice(["plain", "lf", "nul", "obs"])} for _ in range(rng.randint(0, 2))]
        cases.append({"c1": {"st": rng.choice(["ok", "ok", "ok", "inject", "nonlatin1"]), "hs": hs},
                      "c2": {"st": rng.choice(["ok", "ok", "cr", "inject"]), "hs": hs2},
                      "exc": rng.choice(["none", "given", "given", "absent"]), "between": rng.random() < 0.4,
                      "swallow": rng.random() < 0.4})
    # hop-by-hop headers listed AFTER "Connection: upgrade" in the same call (order inside one header list)
    for _ in range(40 if ctx.quick else 400):
        hs = [{"n": "hop", "v": "plain"}] + [{"n": rng.choice(["hop", "hop", "tok", "upgrade"]), "v": "plain"} for _ in range(rng.randint(1, 3))]
        cases.append({"c1": {"st": "ok", "hs": hs}, "c2": None, "exc": "none", "between": False, "force_upgrade": True})
    reps = 1 if ctx.quick else 4
    for case in cases:
        for _ in range(reps):
            tr, m = c09_exchange(case, rng, kind=rng.choice(["sync", "gthread", "async"]))
            traces.append(tr)
            metas.append(m)
    c09_concurrent(ctx)
    verdicts, stats = tlc.validate_batch("RespHeadTrace", "RespHeadTrace.cfg", traces, name="RespHeadTrace_C09", chunk=5000)
    ctx.add_traces(len(traces), stats)
    for t, m, (v, step) in zip(traces, metas, verdicts):
        if v == "ok":
            continue
        c = m["case"]
        detail = ""
        if v == "ForbiddenStatusNotRefused":
            detail = "st=" + (c["c1"]["st"] if t["ev"][step - 1]["who"] == 1 else c["c2"]["st"])
        elif v in ("HeadNotExactlyAcceptedHeaders", "StatusOfReplacedCall"):
            detail = "exc=%s,between=%s" % (c["exc"], c["between"])
        elif v == "ForbiddenHeaderNotRefused":
            cc = c["c1"] if t["ev"][step - 1]["who"] == 1 else c["c2"]
            detail = ",".join(sorted(set("%s/%s" % (h["n"], h["v"]) for h in cc["hs"]
                                         if h["n"] in ("sp_in", "colon_in", "cr_in", "lf_in", "nul_in", "empty", "obs_in", "paren")
                                         or h["v"] in ("cr", "lf", "nul", "crlf_inject"))))
        if m.get("relaxed"):
            detail += ",relaxed-request-parsing"
        ctx.violation("C09/%s/%s" % (v, detail), "%s: status=%r headers=%r second=%r/%r exc=%s wire=%r"
                      % (v, m["st1"], m["hs1"], m["st2"], m["hs2"], c["exc"], m["wire"][:200]), {"trace": t, "meta": m})
    for t, m in list(zip(traces, metas))[:2] + list(zip(traces, metas))[-1:]:
        ctx.sample({"status": m["st1"], "headers": m["hs1"], "events": t["ev"]})
    ctx.assumptions += ["string kinds are expanded to seeded member strings (all CTL bytes are members of kind ctl)",
                        "forwarding Upgrade: websocket is the documented exception to hop-by-hop filtering"]


CHECKS["C09"] = c09


# ---------------------------------------------------------------------------------------------
# C19: every handled request is logged once, truthfully, on a single line

ATOMS = ["h", "l", "u", "t", "r", "s", "m", "U", "q", "H", "b", "B", "f", "a", "T", "D", "M", "L", "p",
         "{x-evil}i", "{content-type}o", "{raw_uri}e", "{http_x_evil}e", "{x-app}o"]
DEFAULT_FMT = '%(h)s %(l)s %(u)s %(t)s "%(r)s" %(s)s %(b)s "%(f)s" "%(a)s"'


def c19_exchange(kind, fmt, reqbytes, appspec, expect_kind, keepalive=2):
    import base64  # noqa
    calls = []
    app = drv.make_app(appspec, calls)
    cfg = drv.make_cfg(keepalive=keepalive, access_log_format="%(s)s|%(B)s|" + fmt)
    w = drv.make_worker(kind, cfg, app)
    r = drv.serve(kind, cfg, [reqbytes], app, worker=w, eof_dispatch=True)
    method = reqbytes.split(b" ", 1)[0].decode("latin-1")
    recs = oracle_wire.read_responses(r.wire, True, [method])
    wstatus, wbody = -1, -1
    if recs and recs[0].get("wellformed"):
        wstatus, wbody = recs[0]["status"], len(recs[0]["body"])
    status, nbytes, maxlines = -1, -1, 0
    for rec in r.access:
        maxlines = max(maxlines, 1 + rec.count("\n") + rec.count("\r"))
    if r.access:
        parts = r.access[0].split("|", 2)
        try:
            status = int(parts[0])
        except ValueError:
            status = -1
        try:
            nbytes = int(parts[1])
        except (ValueError, IndexError):
            nbytes = -1
    ev = {"kind": expect_kind, "nrec": len(r.access), "status": status, "bytes": nbytes, "wstatus": wstatus,
          "wbody": wbody, "maxlines": maxlines}
    return ev, {"records": [x[:200] for x in r.access], "wire": r.wire[:160].decode("latin-1"), "escaped": r.escaped,
                "ncalls": len(calls)}


def c19_real_idle(wk):
    import time
    from drivers import realproc as rp
    s = rp.Server(wk, workers=1, threads=2 if wk == "gthread" else None, name="c19",
                  args=["--keep-alive", "1", "--access-logformat", "%(s)s|%(B)s|%(U)s"])
    try:
        logp = os.path.join(s.dir, "access.log")
        s.cmd[-1:-1] = ["--access-logfile", logp]
        s.start()
        s.wait_booted(1)
        c = s.connect(timeout=6)
        st, body, info = s.get("/pid?mark=idle", sock=c, keepalive=True)
        extra = b""
        c.settimeout(3.3)
        t0 = time.time()
        try:
            while time.time() - t0 < 3.3:
                d = c.recv(65536)
                if not d:
                    break
                extra += d
        except OSError:
            pass
        c.close()
        time.sleep(0.3)
        with open(logp) as f:
            recs = [ln.rstrip("\n") for ln in f if "mark=idle" in ln or ln.rstrip("\n").endswith("|/pid") and False]
        with open(logp) as f:
            allrecs = [ln.rstrip("\n") for ln in f]
        # the start-up probe is the first record; everything after it belongs to the one request sent
        mine = allrecs[1:]
        status = nbytes = -1
        if mine:
            parts = mine[0].split("|")
            try:
                status, nbytes = int(parts[0]), int(parts[1])
            except (ValueError, IndexError):
                pass
        ev = {"kind": "completed", "nrec": len(mine), "status": status, "bytes": nbytes, "wstatus": st,
              "wbody": len(body), "maxlines": 1}
        return ev, {"kind": wk, "fmt": "%(s)s|%(B)s|%(U)s", "what": "real-keepalive-idle", "records": mine[:5],
                    "wire": "", "escaped": None, "ncalls": 1, "request": "GET /pid?mark=idle (keep-alive, then idle 3.3 s)",
                    "extra_bytes_received": len(extra)}
    finally:
        s.cleanup()


ROOT_LOGCONFIG = """
logconfig_dict = {
    "version": 1, "disable_existing_loggers": False,
    "formatters": {"plain": {"format": "%%(message)s"}},
    "handlers": {"all": {"class": "logging.FileHandler", "filename": %(path)r, "formatter": "plain"}},
    "root": {"level": "INFO", "handlers": ["all"]},
    "loggers": {"gunicorn.access": {"level": "INFO", "handlers": [], "propagate": True},
                "gunicorn.error": {"level": "INFO", "handlers": [], "propagate": True}},
}
"""


def c19_real_requests(wk, loglevel, big, logcfg=None):
    """real server with an access log file: a few plain requests and (big) a file of several megabytes sent through the
    class's own sendfile path to a client that reads slowly (partial sends); every request must leave exactly one record
    whose byte count is what the client received -- whatever the error log's level is"""
    import socket
    import time
    from drivers import realproc as rp
    s = rp.Server(wk, workers=1, threads=2 if wk == "gthread" else None, name="c19",
                  args=["--keep-alive", "2", "--access-logformat", "%(s)s|%(B)s|%(U)s|%(q)s"])
    out = []
    try:
        logp = os.path.join(s.dir, "access.log")
        if logcfg == "root":
            # the usual "one handler on the root logger for everything" dictConfig: gunicorn.access has no handler of
            # its own and propagates
            s.rewrite_config(ROOT_LOGCONFIG % {"path": logp})
        else:
            s.cmd[-1:-1] = ["--access-logfile", logp]
        if logcfg == "ini":
            # an ini-style --log-config that names other loggers only (root, gunicorn.error): the access logger, set up from
            # --access-logfile, is an "existing logger" for logging.config.fileConfig
            ini = os.path.join(s.dir, "logging.ini")
            with open(ini, "w") as f:
                f.write("[loggers]\nkeys=root, gunicorn.error\n\n[handlers]\nkeys=console\n\n[formatters]\nkeys=generic\n\n"
                        "[logger_root]\nlevel=INFO\nhandlers=console\n\n"
                        "[logger_gunicorn.error]\nlevel=INFO\nhandlers=console\npropagate=0\nqualname=gunicorn.error\n\n"
                        "[handler_console]\nclass=StreamHandler\nformatter=generic\nargs=(sys.stderr, )\n\n"
                        "[formatter_generic]\nformat=%(message)s\n")
            s.cmd[-1:-1] = ["--log-config", ini]
        if logcfg == "statsd":
            # statsd configured (the Statsd logger class replaces the default one) but not reachable when the server starts
            s.cmd[-1:-1] = ["--statsd-host", "unix://" + os.path.join(s.dir, "no-statsd.sock"), "--statsd-prefix", "v"]
        i = s.cmd.index("--log-level")
        s.cmd[i + 1] = loglevel
        s.start()
        paths = ["/pid?n=1", "/gen?prod=iter&sizes=100,200&cl=300&n=2"]
        if big:
            paths.append("/gen?prod=file&sizes=70000&rep=120&cl=8400000&n=3")
        got = {}
        for pth in paths:
            c = s.connect(timeout=20)
            if "rep=120" in pth:
                c.setsockopt(socket.SOL_SOCKET, socket.SO_RCVBUF, 65536)
            c.sendall(("GET %s HTTP/1.1\r\nHost: h\r\nConnection: close\r\n\r\n" % pth).encode())
            buf = b""
            c.settimeout(20)
            if "rep=120" in pth:
                time.sleep(0.8)          # the server's send buffer fills up: its sends become partial
            try:
                while True:
                    d = c.recv(65536)
                    if not d:
                        break
                    buf += d
            except OSError:
                pass
            c.close()
            head, _, body = buf.partition(b"\r\n\r\n")
            st = int(head.split(b" ")[1]) if head.startswith(b"HTTP/1.") else -1
            got[pth.split("n=")[-1]] = (st, len(body))
        time.sleep(0.4)
        try:
            with open(logp) as f:
                recs = [ln.rstrip("\n") for ln in f]
        except OSError:
            recs = []
        for key, (st, nbody) in sorted(got.items()):
            mine = [r for r in recs if r.endswith("n=" + key)]
            status = nbytes = -1
            if mine:
                parts = mine[0].split("|")
                try:
                    status, nbytes = int(parts[0]), int(parts[1])
                except (ValueError, IndexError):
                    pass
            ev = {"kind": "completed", "nrec": len(mine), "status": status, "bytes": nbytes, "wstatus": st, "wbody": nbody, "maxlines": 1}
            out.append((ev, {"kind": wk, "fmt": "%(s)s|%(B)s|%(U)s|%(q)s", "what": "real-%s-loglevel=%s%s" % ("bigfile" if key == "3" else "plain", loglevel, {"root": ",handler-on-root-logger", "statsd": ",statsd-unreachable", "ini": ",ini-log-config"}.get(logcfg, "")),
                             "records": mine[:3], "wire": "", "escaped": None, "ncalls": 1, "request": "GET n=" + key}))
        return out
    finally:
        s.cleanup()


def c19_real_syslog_hup(wk):
    """access records sent to syslog (UDP, received here); one request, a reload (HUP), another request through a worker of
    the new generation: every request leaves exactly one record, before and after the reload"""
    import signal
    import socket
    import time
    from drivers import realproc as rp
    rx = socket.socket(socket.AF_INET, socket.SOCK_DGRAM)
    rx.bind(("127.0.0.1", 0))
    rx.settimeout(0.2)
    port = rx.getsockname()[1]
    s = rp.Server(wk, workers=1, threads=2 if wk == "gthread" else None, name="c19s",
                  args=["--keep-alive", "2", "--access-logformat", "%(s)s|%(B)s|%(U)s|%(q)s", "--log-syslog",
                        "--log-syslog-to", "udp://127.0.0.1:%d" % port, "--graceful-timeout", "2"])
    out = []
    try:
        s.start()
        first = s.wait_booted(1)
        got = {}

        def drain():
            msgs = []
            t_end = time.time() + 0.8
            while time.time() < t_end:
                try:
                    msgs.append(rx.recv(65536).decode("latin-1"))
                except OSError:
                    pass
            return msgs
        drain()
        for key in ("1", "2"):
            if key == "2":
                s.signal(signal.SIGHUP)
                deadline = time.time() + 10
                while time.time() < deadline:
                    live = [p for p in s.booted() if p in s.workers() and p not in first]
                    if live and not [p for p in first if rp.proc_state(p) not in (None, "Z")]:
                        break
                    time.sleep(0.1)
                drain()
            st, body, info = s.get("/pid?n=" + key, timeout=6)
            recs = [m.rstrip("\x00\r\n ") for m in drain()]
            recs = [m for m in recs if m.endswith("n=" + key)]
            status = nbytes = -1
            if recs:
                try:
                    parts = recs[0].rsplit(" ", 1)[-1].split("|")
                    status, nbytes = int(parts[0][-3:]), int(parts[1])
                except (ValueError, IndexError):
                    pass
            ev = {"kind": "completed", "nrec": len(recs), "status": status, "bytes": nbytes, "wstatus": st, "wbody": len(body), "maxlines": 1}
            out.append((ev, {"kind": wk, "fmt": "%(s)s|%(B)s|%(U)s|%(q)s", "what": "real-syslog-%s" % ("before-hup" if key == "1" else "after-hup"),
                             "records": recs[:3], "wire": "", "escaped": None, "ncalls": 1, "request": "GET n=" + key}))
        return out
    finally:
        rx.close()
        s.cleanup()


def c19_reopen(ctx):
    """log rotation against a record being written (specs/LogReopen.tla), on the real Logger.access() / reopen_files()
    with a FileHandler.  thread mode (gthread: records are emitted by pool threads, signals handled by the main thread):
    at the k-th source-line boundary of the run the file is renamed away and reopen_files() called from another thread --
    every k.  signal mode (master, sync and async workers): the main thread writes records while another process sends
    SIGUSR1 at random instants (drivers/logreopen_signal.py); the handler runs wherever this interpreter runs signal
    handlers.  Judged by specs/LogReopenTrace.tla."""
    import datetime
    import io
    import linecache
    import logging
    import sys
    import threading
    import subprocess
    for mode, dev, want in (("signal", [], True), ("thread", [], True), ("signal", ["SignalAtAnyLine"], False),
                            ("thread", ["ReopenWithoutLock"], False)):
        cfgp = os.path.join(OUT, "cfg", "LogReopen_%s_%s.cfg" % (mode, "_".join(dev) or "design"))
        tlc.write_cfg(cfgp, spec="Spec", constants={"NRec": 2, "NRot": 2, "Mode": mode, "Dev": set(dev)},
                      invariants=["TypeOK", "NoRecordLost", "ExactlyOneRecordEach", "FollowsThePath"])
        r = tlc.run("LogReopen", cfgp, name="LogReopen_%s_%s" % (mode, "_".join(dev) or "design"), workers=2, timeout=300)
        if want:
            if not r.ok:
                raise tlc.TLCError("LogReopen design (%s) violates %s" % (mode, r.violated))
            ctx.add_model(r, "LogReopen mode=%s" % mode)
        else:
            ctx.coverage.setdefault("deviation_runs", []).append({"dev": dev[0], "mode": mode, "expected": "NoRecordLost",
                                                                   "reproduced": bool({"NoRecordLost", "ExactlyOneRecordEach", "FollowsThePath"} & set(r.violated))})
    from gunicorn.config import Config
    from gunicorn.glogging import Logger
    d = os.path.join(drv.SCRATCH, "logreopen_%d" % os.getpid())
    os.makedirs(d, exist_ok=True)
    path = os.path.join(d, "access.log")

    class Resp:
        status, sent, headers, response_length = "200 OK", 5, [("Content-Length", "5")], 5

    class Req:
        headers = [("HOST", "h")]
    env = {"REQUEST_METHOD": "GET", "RAW_URI": "/x", "SERVER_PROTOCOL": "HTTP/1.1", "PATH_INFO": "/x", "QUERY_STRING": "",
           "REMOTE_ADDR": "127.0.0.1"}

    def count(p):
        try:
            with open(p) as f:
                return sum(1 for ln in f if ln.startswith("200|5|/x"))
        except OSError:
            return 0

    def one(mode, k):
        """-> (event, where) or None when the run has fewer than k line boundaries"""
        for p_ in (path, path + ".1"):
            if os.path.exists(p_):
                os.unlink(p_)
        cfg = Config()
        cfg.set("accesslog", path)
        cfg.set("access_log_format", "%(s)s|%(B)s|%(U)s")
        log = Logger(cfg)
        # (handlers other checks of this process left on the logger are set aside for the run)
        foreign = [h for h in log.access_log.handlers if not isinstance(h, logging.FileHandler)]
        for h in foreign:
            log.access_log.removeHandler(h)
        st = {"n": 0, "stage": "before", "at": None, "where": None, "thread": None}

        def rotate():
            os.rename(path, path + ".1")
            log.reopen_files()

        def tr(frame, event, arg):
            if event != "line" or st["at"] is not None and st["n"] >= k:
                return tr
            co = frame.f_code
            text = linecache.getline(co.co_filename, frame.f_lineno).strip()
            lib = co.co_filename.endswith(os.path.join("logging", "__init__.py"))
            # position of the emitting path BEFORE this line runs
            if lib and co.co_name == "handle" and text == "self.emit(record)":
                st["stage"] = "locked"
            elif lib and co.co_name == "emit" and text == "stream = self.stream":
                st["stage"] = "checked"
            elif lib and co.co_name == "emit" and text.startswith("stream.write("):
                st["stage"] = "fetched"
            elif lib and co.co_name == "emit" and text == "self.flush()":
                st["stage"] = "written"
            elif lib and co.co_name == "handle" and text == "self.release()" and st["stage"] == "written":
                st["stage"] = "flushed"
            elif st["stage"] == "flushed":
                st["stage"] = "after"
            st["n"] += 1
            if st["n"] == k:
                st["at"] = st["stage"]
                st["where"] = "%s:%s: %s" % (os.path.basename(co.co_filename), co.co_name, text[:50])
                sys.settrace(None)
                if mode == "signal":
                    rotate()
                else:
                    t = threading.Thread(target=rotate)
                    t.start()
                    t.join(0.05)
                    st["thread"] = t
                return None
            return tr
        err = io.StringIO()
        saved = sys.stderr
        sys.stderr = err
        sys.settrace(tr)
        try:
            log.access(Resp(), Req(), env, datetime.timedelta(seconds=1))
        finally:
            sys.settrace(None)
            sys.stderr = saved
        if st["thread"] is not None:
            st["thread"].join(5)
        for lg in (log.access_log, log.error_log):
            for h in list(lg.handlers):
                try:
                    h.close()
                except Exception:   # noqa
                    pass
        for h in foreign:
            log.access_log.addHandler(h)
        if st["at"] is None:
            return None
        return ({"mode": mode, "pc": st["at"], "nold": count(path + ".1"), "nnew": count(path), "n": 1, "total": 0},
                {"k": k, "where": st["where"], "stderr": err.getvalue()[-200:]})
    traces, metas = [], []
    # signal mode: real signals from another process
    nrec = 30000 if ctx.quick else 150000
    procs = []
    for i in range(2 if ctx.quick else 6):
        dd = os.path.join(d, "sig%d" % i)
        procs.append((dd, subprocess.Popen([sys.executable, "-B", os.path.join(os.path.dirname(drv.__file__), "logreopen_signal.py"),
                                            dd, str(nrec), str(ctx.seed * 10 + i)], stdout=subprocess.PIPE, stderr=subprocess.PIPE, text=True,
                                           env=dict(os.environ, VERIF_REPO=os.environ.get("VERIF_REPO", "/repo")))))
    for mode in ("thread",):
        k = 1
        while k < 5000:
            r = one(mode, k)
            if r is None:
                break
            traces.append({"ev": [r[0]]})
            metas.append(dict(r[1], mode=mode, pc=r[0]["pc"]))
            k += 1
    if len(traces) < 200 or not any(m["pc"] == "fetched" for m in metas):
        raise RuntimeError("log-reopen exploration did not reach the emitting path (%d runs)" % len(traces))
    sigruns = []
    for dd, pr in procs:
        out, errtxt = pr.communicate(timeout=900)
        try:
            o = json.loads(out.strip().splitlines()[-1])
        except (ValueError, IndexError):
            # the driver died: a signal handler's exception escaped into the main loop, or the harness is broken
            o = {"n": nrec, "total": -1, "rotations": 0, "reentrant": 0, "stderr": (errtxt or "")[-300:]}
        sigruns.append(o)
        traces.append({"ev": [{"mode": "signal", "pc": "real", "nold": 0, "nnew": 0, "n": o["n"], "total": o["total"]}]})
        metas.append({"mode": "signal", "pc": "real", "k": 0, "where": "real SIGUSR1 from another process (%d rotations, %d inside a busy flush)"
                      % (o["rotations"], o.get("reentrant", 0)), "stderr": o.get("stderr", "")})
    if sum(o["rotations"] for o in sigruns) < 100:
        raise RuntimeError("log-reopen signal runs rotated only %s times" % [o["rotations"] for o in sigruns])
    ctx.coverage["log_reopen_real_signals"] = {"records": sum(o["n"] for o in sigruns), "rotations": sum(o["rotations"] for o in sigruns),
                                              "handler_inside_busy_flush": sum(o.get("reentrant", 0) for o in sigruns)}
    import shutil
    shutil.rmtree(d, ignore_errors=True)
    verdicts, stats = tlc.validate_batch("LogReopenTrace", "LogReopenTrace.cfg", traces, name="LogReopenTrace_C19", chunk=3000)
    ctx.add_traces(len(traces), stats)
    ctx.coverage["log_reopen_line_boundaries_thread_mode"] = sum(1 for x in metas if x["mode"] == "thread")
    for t, m, (v, step) in zip(traces, metas, verdicts):
        if v == "ok":
            continue
        if v.startswith("drift:"):
            ctx.note_drift("log reopen (%s) at %s [%s]: %s, files old=%d new=%d" % (m["mode"], m["pc"], m["where"], v,
                                                                                     t["ev"][0]["nold"], t["ev"][0]["nnew"]))
            continue
        ctx.violation("C19/%s/log-reopen,mode=%s,at=%s" % (v, m["mode"], m["pc"]),
                      "%s: Logger.reopen_files() (%s) at line boundary %d, `%s`: %d record(s) in the renamed file, %d in the "
                      "new one; written %d, found %d; stderr: %s"
                      % (v, "in the emitting thread, as the SIGUSR1 handler" if m["mode"] == "signal" else "from another thread",
                         m["k"], m["where"], t["ev"][0]["nold"], t["ev"][0]["nnew"], t["ev"][0]["n"], t["ev"][0]["total"], m["stderr"][-120:]),
                      {"trace": t, "meta": m})


def c19(ctx):
    import base64
    rng = ctx.rng
    # (D) byte accounting in the response writer, record sites in the handle() ladders
    r = tlc.run("Response", resp_cfg("c19_design", maxchunks=2, invs=["SentEqualsWire"], live=False),
                name="Response_c19", workers=12, timeout=1800)
    if not r.ok:
        raise tlc.TLCError("Response design violates %s" % r.violated)
    ctx.add_model(r, "Response.SentEqualsWire")
    from props import conn as pconn
    r2 = tlc.run("Conn", pconn.conn_cfg("c19"), name="Conn_c19", workers=4, timeout=600)
    if not r2.ok:
        raise tlc.TLCError("Conn design violates %s" % r2.violated)
    ctx.add_model(r2, "Conn.records")
    rr = tlc.run("Response", resp_cfg("c19_dev", dev=["SendfileNotCounted"], maxchunks=1, invs=["SentEqualsWire"], live=False),
                 name="Response_c19_dev", workers=8, timeout=600)
    ctx.coverage.setdefault("deviation_runs", []).append({"dev": "SendfileNotCounted", "reproduced": "SentEqualsWire" in rr.violated})
    ctx.coverage["exhaustive"] = True
    traces, metas = [], []

    def add(kind, fmt, req, spec, ek, what):
        ev, info = c19_exchange(kind, fmt, req, spec, ek)
        traces.append({"ev": [ev]})
        info.update(kind=kind, fmt=fmt, what=what, request=req[:200].decode("latin-1"))
        metas.append(info)

    kinds = ["sync", "gthread", "async"]
    # 1. completed applications: every producer x framing x worker class
    n1 = 400 if ctx.quick else 6000
    for _ in range(n1):
        rq = {"ver": rng.choice([10, 11]), "head": rng.random() < 0.15, "conn": rng.choice(["none", "close", "keep"])}
        prod = rng.choice(["iter", "write", "file", "filenofd"])
        status = rng.choice([200, 200, 201, 404, 302, 204, 304])
        nobody = rq["head"] or status in (204, 304)
        sizes = [] if nobody else [rng.choice([0, 1, 2, 5, 100, 8192, 9000]) for _ in range(rng.randint(0, 4))]
        off = rng.choice([0, 0, 1]) if prod in ("file", "filenofd") else 0
        total = sum(sizes)
        produced = max(0, total - off) if prod in ("file", "filenofd") else total
        hdrs = [("Content-Type", "text/plain")]
        x = rng.random()
        if x < 0.45:
            hdrs.append(("Content-Length", str(produced)))
        elif x < 0.6 and produced > 1 and not nobody:
            # the application produces more than it declared: the surplus is cut, and must not be counted
            hdrs.append(("Content-Length", str(rng.choice([0, 1, produced // 2, produced - 1]))))
        elif x < 0.7 and prod in ("file", "filenofd") and produced > 0 and not nobody:
            # the file holds fewer bytes than the application announced (it shrank after the stat): what was sent counts
            hdrs.append(("Content-Length", str(produced + rng.choice([1, 200, 9000]))))
        spec = drv.AppSpec(STATUS_TEXT[status], hdrs, prod, chunk_bytes(sizes), file_offset=off)
        add(rng.choice(kinds), rng.choice([DEFAULT_FMT] + ["%%(%s)s" % a for a in ATOMS]), request_bytes(rq), spec, "completed",
            "prod=%s" % prod)
    # 2. requests the server rejects itself
    bads = [b"GET /x HTTP/1.1\r\nBad Header\r\n\r\n", b"GET /x HTTP/1.1\r\nContent-Length: 1\r\nContent-Length: 1\r\n\r\nx",
            b"GET /x HTTP/1.1\r\nTransfer-Encoding: chunked\r\nContent-Length: 1\r\n\r\n", b"GET /x HTTP/9.9\r\n\r\n",
            b"get /x HTTP/1.1\r\n\r\n", b"GET /x HTTP/1.1\r\nTransfer-Encoding: foo\r\n\r\n", b"GET /x HTTP/1.1\r\nX: a\x00b\r\n\r\n",
            b"GET /x HTTP/1.0\r\nTransfer-Encoding: chunked\r\n\r\n", b"GET /" + b"a" * 5000 + b" HTTP/1.1\r\n\r\n",
            b"GET /x HTTP/1.1\r\n" + b"X-A: b\r\n" * 120 + b"\r\n", b"GET /x HTTP/1.1\r\nContent-Length: abc\r\n\r\n"]
    for b in bads:
        for kind in kinds:
            for fmt in [DEFAULT_FMT, "%(r)s", "%(u)s %({x-evil}i)s"]:
                add(kind, fmt, b, drv.AppSpec(), "rejected", "rejected")
    # 3. client-controlled data in every atom: request target, header values, basic-auth user
    evil_targets = [b"/two\n", b"/two\r", b"/a\nb", b"/a\rb", b"/a\r\nGET /fake HTTP/1.1", b"/a?x=\n127.0.0.1 - - [x] \"GET /forged\" 200", b"/a\tb", b"/a%0Ab", b"/a\x0bb",
                    b"/a\x1cb", b"/\"quoted\"", b"/a\x7fb"]
    evil_users = [b"bob\n", b"bob\r", b"admin - - 'GET /secret HTTP/1.1' 200 7\n", b"bob\nforged", b"bob\rforged", b"bob\r\n10.0.0.1 - admin", b"bob", b"\"bob\"", b"b\x0bob", b"bo\x85b"]
    evil_vals = [b"v\x0bx", b"v\tx", b"caf\xe9", b"\"q\"", b"v\x1cx", b"v\x7fx"]
    atoms = [DEFAULT_FMT] + ["%%(%s)s" % a for a in ATOMS]
    for fmt in atoms:
        for kind in (kinds if not ctx.quick else [rng.choice(kinds)]):
            for tgt in (evil_targets if not ctx.quick else evil_targets[:2] + rng.sample(evil_targets[2:], 3)):
                req = b"GET " + tgt + b" HTTP/1.1\r\nHost: h\r\nX-Evil: " + rng.choice(evil_vals) + b"\r\nReferer: " + \
                    rng.choice(evil_vals) + b"\r\nUser-Agent: " + rng.choice(evil_vals) + b"\r\n\r\n"
                add(kind, fmt, req, drv.AppSpec(headers=[("Content-Type", "text/plain"), ("X-App", "v")]), "other", "target")
            for u in (evil_users if not ctx.quick else evil_users[:3] + rng.sample(evil_users[3:], 2)):
                tok = base64.b64encode(u + b":pw")
                req = b"GET /u HTTP/1.1\r\nHost: h\r\nAuthorization: Basic " + tok + b"\r\n\r\n"
                add(kind, fmt, req, drv.AppSpec(headers=[("Content-Length", "5")]), "completed", "authuser")
    # 3b. Authorization values that are not base64 at all: bytes beyond ASCII, control bytes, wrong padding, other schemes
    evil_tokens = [b"dXNlcjpw\xe9", b"\xff\xfe\xfd", b"dXNlcjpw" + "\u00e9".encode(), b"dXNl cjpw", b"====", b"dXNlcjpw=", b"*", b"dXNlcjpw\x0b",
                   b"\xe2\x84\xaa", b""]
    for tok in evil_tokens:
        for kind in kinds:
            for scheme in (b"Basic ", b"basic ", b"Bearer ", b"Basic"):
                req = b"GET /u HTTP/1.1\r\nHost: h\r\nAuthorization: " + scheme + tok + b"\r\n\r\n"
                add(kind, rng.choice([DEFAULT_FMT, "%(u)s", "%(s)s"]), req, drv.AppSpec(headers=[("Content-Length", "5")]), "completed", "authtoken")
    # 4. the application call completes but its iterable's close() raises / a late start_response(exc_info) after
    #    the headers went out (with an empty first item) is swallowed by the application
    for kind in kinds:
        for fmt in [DEFAULT_FMT, "%(s)s"]:
            for hdrs in ([("Content-Length", "5")], [("Content-Type", "text/plain")]):
                for ver in (10, 11):
                    rq = {"ver": ver, "head": False, "conn": "none"}
                    add(kind, fmt, request_bytes(rq), drv.AppSpec(headers=hdrs, chunks=[b"hello"], fail="close_raises"),
                        "completed", "close_raises")
                    add(kind, fmt, request_bytes(rq), drv.AppSpec(headers=hdrs, chunks=[b"hel", b"lo"], second="exc_info_after_empty"),
                        "completed", "late_exc_info")
    # 5. real processes: one request on a keep-alive connection, then silence for longer than the keep-alive time
    #    (timers cannot be scripted in-process): still exactly one record
    from props.reload_real import _parallel
    plan = ["gevent", "gthread"] if ctx.quick else ["gevent", "eventlet", "gthread", "sync"]
    for ev, info in _parallel(plan, lambda a, i: c19_real_idle(a)):
        traces.append({"ev": [ev]})
        metas.append(info)
    plan2 = [("eventlet", "debug", True), ("gthread", "error", True), ("sync", "warning", False), ("gthread", "info", False, "root"), ("sync", "info", False, "statsd"), ("gthread", "info", False, "ini")] if ctx.quick else \
        [(wk, lv, True) for wk in ("sync", "gthread", "gevent", "eventlet") for lv in ("debug", "info", "warning", "critical")] + \
        [(wk, "info", False, lc) for wk in ("sync", "gthread", "gevent", "eventlet") for lc in ("root", "statsd", "ini")]
    for res in _parallel(plan2, lambda a, i: c19_real_requests(a[0], a[1], a[2], a[3] if len(a) > 3 else None)):
        for ev, info in res:
            traces.append({"ev": [ev]})
            metas.append(info)
    for res in _parallel(["sync"] if ctx.quick else ["sync", "gthread", "gevent", "eventlet"], lambda a, i: c19_real_syslog_hup(a)):
        for ev, info in res:
            traces.append({"ev": [ev]})
            metas.append(info)
    c19_reopen(ctx)
    verdicts, stats = tlc.validate_batch("AccessTrace", "AccessTrace.cfg", traces, name="AccessTrace_C19", chunk=6000)
    ctx.add_traces(len(traces), stats)
    for t, m, (v, step) in zip(traces, metas, verdicts):
        if v == "ok":
            continue
        detail = m["what"]
        if v == "RecordSpansSeveralLines":
            detail = "via=" + m["what"]
        ctx.violation("C19/%s/%s" % (v, detail), "%s: %s" % (v, json.dumps(m)[:500]), {"trace": t, "meta": m})
    for t, m in list(zip(traces, metas))[:2] + list(zip(traces, metas))[-1:]:
        ctx.sample({"event": t["ev"][0], "records": m["records"][:1], "fmt": m["fmt"]})
    ctx.assumptions += ["records captured by a handler on the real gunicorn.access logger; format prefixed with %(s)s|%(B)s| to extract status and bytes",
                        "body bytes on the wire = decoded body length read by the strict response reader"]


CHECKS["C19"] = c19
