"""In-process runs of the REAL SyncWorker.run() (run_for_one / run_for_multiple) over scripted listeners and
client sockets with a signal (TERM = handle_exit) delivered at a chosen system-call boundary: before / after
every listener.accept(), select(), client.recv(), client.sendall().  Python runs signal handlers between
bytecodes of the main thread; with siginterrupt(SIGTERM, False) + PEP 475 the handler effectively runs when a
system call returns, which is exactly these injection points.

Used by C10 / C04 ("every connection a sync worker accepted is answered") and C18 (recycling)."""
import errno
import os
import select as _select
import signal

from drivers import conn as cdrv


class Injector:
    """counts injection points; fires `action` at point number `at` (0-based), once"""

    def __init__(self, at, action):
        self.at, self.action, self.n, self.fired_at = at, action, 0, None
        self.log = []

    def point(self, name):
        if self.n == self.at and self.fired_at is None:
            self.fired_at = name
            self.action()
        self.log.append(name)
        self.n += 1


class HookSock(cdrv.FakeSock):
    def __init__(self, segs, inj):
        super().__init__(segs)
        self.inj = inj

    def recv(self, n):
        self.inj.point("recv:before")
        d = super().recv(n)
        self.inj.point("recv:after")
        return d

    def sendall(self, data):
        self.inj.point("send:before")
        super().sendall(data)
        self.inj.point("send:after")


class HookListener:
    def __init__(self, conns, inj, name):
        self.conns, self.inj, self.name = list(conns), inj, name
        self.handed = []            # sockets the kernel handed to the worker (accept returned them)

    def accept(self):
        self.inj.point("accept:before")
        if not self.conns:
            getattr(self, "note", lambda *a: None)("accept", self.name + 1, 0)
            raise OSError(errno.EAGAIN, "again")
        c = self.conns.pop(0)
        self.handed.append(c)
        getattr(self, "note", lambda *a: None)("accept", self.name + 1, 1)
        self.inj.point("accept:after")          # the connection is off the listen queue now
        return c, ("127.0.0.1", 40000 + len(self.handed))

    def setblocking(self, f):
        pass

    def getsockname(self):
        return ("127.0.0.1", 8000 + self.name)

    def fileno(self):
        return 990 + self.name


def run(nconn, nlisteners, at, sig="TERM", max_requests=0, rec=None):
    """-> dict(handed, answered, fired_at, npoints, served_after_signal).  rec: a list that receives the events of
    specs/SyncLoopTrace.tla; sig: "TERM" (handle_exit) or "PDEAD" (the parent's pid changes)"""
    from gunicorn import util
    calls = []

    def app(environ, start_response):
        calls.append(1)
        start_response("200 OK", [("Content-Length", "2")])
        return [b"ok"]
    cfg = cdrv.make_cfg(max_requests=max_requests)
    w = cdrv.make_worker("sync", cfg, app)
    state = {"idle": 0}

    def note(*e):
        if rec is not None:
            rec.append(list(e))

    def action():
        if sig == "TERM":
            w.handle_exit(signal.SIGTERM, None)
            note("term")
        elif sig == "PDEAD":
            w.ppid = -1
            note("pdead")
        state["signalled"] = True
    inj = Injector(at, action)
    socks = [HookSock([b"GET /%d HTTP/1.1\r\nHost: h\r\n\r\n" % i], inj) for i in range(nconn)]
    lsts = [HookListener(socks[k::nlisteners], inj, k) for k in range(nlisteners)]
    w.sockets = lsts
    w.PIPE = [991, 992]
    w.wait_fds = lsts + [991]
    w.notify = lambda: note("notify")
    w.ppid = os.getppid()
    for k, lst in enumerate(lsts):
        for _ in lst.conns:
            note("connect", k + 1)
        lst.note = note
    orig_ipa = w.is_parent_alive

    def ipa():
        r = orig_ipa()
        note("parent", 1 if r else 0)
        return r
    w.is_parent_alive = ipa
    old_select, old_coe = _select.select, util.close_on_exec

    def fake_select(r, wl, x, t=None):
        inj.point("select:before")
        ready = [l for l in lsts if l.conns]
        inj.point("select:after")
        note("select", [l.name + 1 for l in ready])
        if ready:
            return (ready, [], [])
        state["idle"] += 1
        if state["idle"] > 2 and w.alive:
            w.alive = False             # (the driver ends the run: a stop request)
            note("term")
        return ([], [], [])
    _select.select = fake_select
    util.close_on_exec = lambda fd: None
    escaped = None
    try:
        w.run()
        note("exit")
    except BaseException as e:   # noqa
        escaped = type(e).__name__
    finally:
        _select.select = old_select
        util.close_on_exec = old_coe
    handed = [s for l in lsts for s in l.handed]
    answered = [s for s in handed if bytes(s.wire).startswith(b"HTTP/1.1 200 OK") and bytes(s.wire).endswith(b"ok") and s.closed]
    return {"handed": len(handed), "answered": len(answered), "fired_at": inj.fired_at, "npoints": inj.n,
            "escaped": escaped, "left_in_queue": sum(len(l.conns) for l in lsts), "alive": bool(w.alive)}


def term_injection_traces(quick):
    """one run per injection point; each becomes a ReloadTrace with strict = TRUE: every connection the worker
    took off the listen queue must be answered"""
    traces, metas = [], []
    for nl in (1, 2):
        base = run(4, nl, at=-1)
        npoints = base["npoints"]
        step = 1 if not quick else max(1, npoints // 40)
        for at in range(0, npoints, step):
            r = run(4, nl, at)
            ev = [{"e": "req", "outcome": "complete", "inflight_at_hup": False} for _ in range(r["answered"])]
            ev += [{"e": "req", "outcome": "nothing", "inflight_at_hup": False} for _ in range(r["handed"] - r["answered"])]
            if r["escaped"]:
                ev.append({"e": "req", "outcome": "reset", "inflight_at_hup": True})
            traces.append({"wk": "sync", "strict": True, "ev": ev})
            metas.append({"wk": "sync-inproc", "listeners": nl, "at": at, "fired_at": r["fired_at"], "handed": r["handed"],
                          "answered": r["answered"], "escaped": r["escaped"], "nhup": 0, "requests": r["handed"]})
    return traces, metas


def model_traces(ctx, clauses, prop):
    """the real SyncWorker.run() against specs/SyncLoop.tla: the loop's events (notify / accept / select / parent check /
    return) recorded for 1..3 listeners, with and without max_requests, a stop request or the parent's death at every
    system-call boundary; TLC judges the clauses in `clauses` (the property's share) and follows the model (drift)."""
    import tlc
    groups = {}
    for nl in (1, 2, 3):
        for mr in (0, 2):
            base = run(4, nl, at=-1, max_requests=mr)
            npoints = base["npoints"]
            step = 1 if not ctx.quick else max(1, npoints // 25)
            for sig in ("TERM", "PDEAD"):
                for at in [-1] + list(range(0, npoints, step)):
                    rec = []
                    r = run(4, nl, at, sig=sig, max_requests=mr, rec=rec)
                    if r["escaped"]:
                        rec.append(["escaped", r["escaped"]])
                    groups.setdefault((nl, mr), []).append(({"cfg": {"nl": nl, "maxreq": mr, "pdead": sig == "PDEAD" and r["fired_at"] is not None}, "ev": rec},
                                                           {"listeners": nl, "max_requests": mr, "sig": sig, "at": at, "fired_at": r["fired_at"]}))
    n = 0
    for (nl, mr), items in sorted(groups.items()):
        cfgp = os.path.join(tlc.OUT, "cfg", "SyncLoopTrace_%d_%d.cfg" % (nl, mr))
        os.makedirs(os.path.dirname(cfgp), exist_ok=True)
        tlc.write_cfg(cfgp, spec="TSpec", constants={"NL": nl, "MaxConn": 99, "MaxReq": mr, "Dev": set()}, constraints=["Record"],
                      postcondition="Post")
        verdicts, stats = tlc.validate_batch("SyncLoopTrace", cfgp, [t for t, _ in items], name="SyncLoopTrace_%s_%d_%d" % (prop, nl, mr))
        ctx.add_traces(len(items), stats)
        n += len(items)
        ndrift = 0
        for (t, m), (v, stepn) in zip(items, verdicts):
            if v == "ok":
                continue
            if str(v).startswith("drift"):
                ndrift += 1
                if ndrift <= 3:
                    ctx.note_drift("sync loop (%s): %s at event %d: %s" % (m, v, stepn, t["ev"][max(0, stepn - 3):stepn]))
                continue
            if v in clauses:
                ctx.violation("%s/%s/sync-loop,listeners=%s" % (prop, v, "1" if nl == 1 else ">1"),
                              "%s: %s; events up to the failing one: %s" % (v, m, t["ev"][max(0, stepn - 8):stepn]), {"trace": t, "meta": m})
    ctx.coverage["sync_loop_model_traces"] = n


def design(ctx):
    """TLC on specs/SyncLoop.tla: safety and liveness for 1..3 listeners, the two named deviations"""
    import tlc
    for nl, mc, mr, dev, expect in ((1, 3, 2, (), None), (2, 3, 0, (), None), (3, 4, 2, (), None),
                                    (2, 3, 2, ("AcceptAllReady",), "AtMostOneAcceptAfterStop"),
                                    (2, 3, 0, ("NoBeatPerListener",), "BeatBeforeEveryBlockingOp")):
        label = "%d_%d_%d_%s" % (nl, mc, mr, "_".join(dev) or "design")
        cfgp = os.path.join(tlc.OUT, "cfg", "SyncLoop_%s.cfg" % label)
        os.makedirs(os.path.dirname(cfgp), exist_ok=True)
        tlc.write_cfg(cfgp, spec="Spec", constants={"NL": nl, "MaxConn": mc, "MaxReq": mr, "Dev": set(dev)},
                      invariants=["TypeOK", "BeatBeforeEveryBlockingOp", "AtMostOneAcceptAfterStop", "StopsAtLimit"],
                      properties=["Leaves", "Served"] if not dev else [])
        r = tlc.run("SyncLoop", cfgp, name="SyncLoop_" + label, workers=2, timeout=300)
        if expect is None:
            if not r.ok:
                raise tlc.TLCError("SyncLoop design (%s) violates %s" % (label, r.violated))
            ctx.add_model(r, "SyncLoop nl=%d" % nl)
        else:
            ctx.coverage.setdefault("deviation_runs", []).append({"dev": dev[0], "expected": expect, "reproduced": expect in r.violated})
