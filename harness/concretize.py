"""Message descriptors (specs/HttpStream.tla) -> bytes, with the symbol <-> byte span map.

Every symbol kind has several concrete spellings; `variant` picks one (an int, taken modulo the
number of spellings) so that a case can be replayed exactly.  Body data bytes are unique
obs-text bytes (0x80..0xff) so that an observed body can be mapped back to stream positions.
"""

# (prefix, suffix): PAD bytes are inserted between the two
RL11 = [(b"GET /p", b" HTTP/1.1"), (b"POST /a/b?c=d", b" HTTP/1.1"), (b"OPTIONS *", b" HTTP/1.1"),
        (b"GET http://h/x", b" HTTP/1.1"), (b"DELETE //x", b" HTTP/1.1"), (b"PUT /%41%2f", b" HTTP/1.1")]
RL10 = [(p, s.replace(b"1.1", b"1.0")) for p, s in RL11]
RLBAD = [b"GET /p HTTP/2.0", b"GET /p HTTP/1.1 ", b"get /p HTTP/1.1", b"GET /p", b"GET  HTTP/1.1",
         b"GET /p HTTP/1.10", b"GET /p http/1.1", b"G\x00T /p HTTP/1.1", b"GET /p HTTP/0.9",
         b"GET /p HTTP/1.1\x0b", b" GET /p HTTP/1.1", b"GE(T /p HTTP/1.1", b"GET /p HTTP/11", b"/p HTTP/1.1",
         b"GET /p HTTP/1", b"GET /p HTTP/1.\xb2", b"GET /p HTTP/1.1\nContent-Length: 5", b"GET /p HTTP/1.1\rX: y",
         b"GET /p HTTP/1.1\tx", b"GET /p HTTP/1.1;", b"GET /p HTTP/1.1\xef\xbc\x91"]

PX_OK = [b"PROXY TCP4 1.2.3.4 5.6.7.8 1111 2222", b"PROXY TCP6 ::1 2001:db8::2 1 65535", b"PROXY TCP4 255.255.255.255 0.0.0.0 0 0"]
PX_BAD = [b"PROXY TCP4 1.2.3.4 5.6.7.8 1111", b"PROXY UNKNOWN", b"PROXY TCP4 999.1.1.1 1.1.1.1 1 2", b"PROXY TCP4 1.2.3.4 5.6.7.8 70000 1",
          b"PROXY", b"PROXY TCP5 1.2.3.4 5.6.7.8 1 2", b"PROXY TCP4 1.2.3.4 5.6.7.8 a b", b"PROXY TCP6 1.2.3.4 5.6.7.8 1 2",
          b"PROXY TCP4 1.2.3.4 5.6.7.8 1 2 3", b"PROXY  TCP4 1.2.3.4 5.6.7.8 1 2"]

PYWS = [b"\x0b", b"\x0c", b"\x1c", b"\x1d", b"\x1e", b"\x1f", b"\x85", b"\xa0"]

HDR = {
    "CL0": [b"Content-Length: 0", b"content-length:0", b"CONTENT-LENGTH: \t0 \t", b"Content-Length: 00"],
    "CL1": [b"Content-Length: 1", b"content-length:1", b"CONTENT-LENGTH: \t1 \t", b"Content-Length: 01"],
    "CL2": [b"Content-Length: 2", b"content-length:2", b"CONTENT-LENGTH: \t2 \t", b"Content-Length: 002"],
    "CL3": [b"Content-Length: 3", b"content-length:3", b"CONTENT-LENGTH: \t3 \t", b"Content-Length: 03"],
    "CL5": [b"Content-Length: 5", b"content-length:5", b"CONTENT-LENGTH: \t5 \t", b"Content-Length: 005"],
    "CLbad": [b"Content-Length: +1", b"Content-Length: 1_0", b"Content-Length: 0x1", b"Content-Length: 1 2",
              b"Content-Length: 1,1", b"Content-Length: ", b"Content-Length: -1", b"Content-Length: 1.0",
              b"Content-Length: \xb2", b"Content-Length: 1e1", b"Content-Length: \xbd", b"Content-Length:",
              b"Content-Length: 1\x0b", b"Content-Length: \x0c1", b"Content-Length: 1;1", b"Content-Length: one",
              # digits of other scripts, as UTF-8 (fullwidth five, Arabic-Indic one, superscript two)
              b"Content-Length: \xef\xbc\x95", b"Content-Length: \xd9\xa1", b"Content-Length: 1\xef\xbc\x90",
              b"Content-Length: \xc2\xb2"],
    "TEchunked": [b"Transfer-Encoding: chunked", b"transfer-encoding:chunked", b"Transfer-Encoding: \tChunked ",
                  b"TRANSFER-ENCODING: CHUNKED"],
    "TEgzipchunked": [b"Transfer-Encoding: gzip, chunked", b"Transfer-Encoding: deflate,chunked",
                      b"Transfer-Encoding: compress , chunked", b"Transfer-Encoding: GZIP,\tchunked"],
    "TEchunkedgzip": [b"Transfer-Encoding: chunked, gzip", b"Transfer-Encoding: chunked,identity",
                      b"Transfer-Encoding: chunked , deflate"],
    "TEchunked2": [b"Transfer-Encoding: chunked, chunked", b"Transfer-Encoding: chunked,Chunked",
                   b"Transfer-Encoding: gzip, chunked, chunked"],
    "TEunknown": [b"Transfer-Encoding: foo", b"Transfer-Encoding: xchunked", b"Transfer-Encoding: chunked;q=1",
                  b"Transfer-Encoding: br, chunked", b"Transfer-Encoding: chunkedx", b"Transfer-Encoding: x-gzip"],
    "TEnontoken": [b"Transfer-Encoding: chu nked", b'Transfer-Encoding: "chunked"', b"Transfer-Encoding: chunked\x01",
                   b"Transfer-Encoding: \x7fchunked", b"Transfer-Encoding: chunked chunked",
                   b"Transfer-Encoding: [chunked]",
                   # letters that case-fold to ASCII, as UTF-8 (KELVIN SIGN for k, LATIN SMALL LETTER LONG S ...)
                   b"Transfer-Encoding: chun\xe2\x84\xaaed", b"Transfer-Encoding: \xef\xbd\x83hunked",
                   b"Transfer-Encoding: chunk\xc3\xa9d"],
    "TEpyws": [b"Transfer-Encoding: " + w + b"chunked" for w in PYWS]
              + [b"Transfer-Encoding: chunked" + w for w in PYWS]
              + [b"Transfer-Encoding: gzip," + w + b"chunked" for w in PYWS[:3]],
    "TEidentity": [b"Transfer-Encoding: identity", b"Transfer-Encoding: Identity"],
    "TEgzip": [b"Transfer-Encoding: gzip", b"Transfer-Encoding: deflate", b"Transfer-Encoding: compress"],
    "TEempty": [b"Transfer-Encoding: chunked,", b"Transfer-Encoding: ,chunked", b"Transfer-Encoding: chunked, ",
                b"Transfer-Encoding: , chunked"],
    "ObsFold": [b" folded", b"\tfolded: x", b" Content-Length: 5", b"  "],
    "WsColon": [b"X-Foo : bar", b"Content-Length : 3", b"Transfer-Encoding\t: chunked", b"X-Foo \t: y", b"X_Foo : bar"],
    "BadName": [b"X Foo: bar", b"(X): y", b": empty", b"X\x00Y: z", b"X\xe9: z", b"X@Y: z", b"X,Y: z",
                b"Content-Length\x0b: 3", b"\x0cTransfer-Encoding: chunked"],
    "NulVal": [b"X-Foo: a\x00b", b"X-Foo: a\rb", b"X-Foo: a\nb", b"X-Foo: \x00", b"Content-Length: 1\x00",
               b"X-Foo: a\n", b"X_Foo: a\x00b", b"X_Under: a\rb", b"x_pad: a\nb", b"X_Forwarded_For: 1.2.3.4\x00",
               # the forbidden byte on the continuation of a folded spelling (refused either as folding or as the byte)
               b"X-Foo: a\r\n b\x00c", b"X-Note: a\r\n\tb\rc", b"X-Note:\r\n a\nX-Injected: 1", b"Content-Length:\r\n 1\x00"],
    "NoColon": [b"X-Foo bar", b"Content-Length 3", b"x", b"Transfer-Encoding chunked"],
    "ConnClose": [b"Connection: close", b"connection: Close", b"Connection:  close\t", b"CONNECTION:CLOSE"],
    "ConnKeep": [b"Connection: keep-alive", b"Connection: Keep-Alive", b"connection:keep-alive "],
    # fields without any meaning for message framing (RFC 9112 6), among them names that had one in obsolete
    # protocols (hixie-76 websocket keys), hop-by-hop and body-describing fields, look-alikes of the framing fields
    "Plain": [b"X-Foo: bar", b"Host: example.com", b"Accept: */*", b"X-Empty:", b"Cookie: a=b; c=d",
              b"X-Obs: caf\xe9", b"X-Tab:\ta\tb", b"Content-Type: text/plain",
              b"Sec-WebSocket-Key1: 4 @1  46546xW%0l 1 5", b"Sec-WebSocket-Key2: 12998 5 Y3 1  .P00", b"Upgrade: WebSocket",
              b"Keep-Alive: timeout=5, max=100", b"Proxy-Connection: keep-alive", b"TE: trailers, chunked", b"Trailer: X-T",
              b"Content-Encoding: chunked", b"Content-Range: bytes 0-1/2", b"Range: bytes=0-0", b"Content-MD5: Q2h1Y2s=",
              b"X-Content-Length: 7", b"X-Transfer-Encoding: chunked", b"Content-Length-X: 9", b"Expect: 100-continue"],
    "Under": [b"X_Foo: bar", b"Content_Length: 3", b"Transfer_Encoding: chunked", b"X_Forwarded_For: 1.2.3.4"],
}
# kinds whose value may be padded (PAD bytes appended to the value / leading zeros for CL)
PADDABLE = {"Plain", "Under", "CL0", "CL1", "CL2", "CL3", "CL5"}

SIZE = {
    "S1": [b"1"], "S2": [b"2"], "S3": [b"3"],
    "S1ext": [b"1;a=b", b"1;a", b'1;a="b"', b"1;a=b;c=d"],
    "S1lz": [b"01", b"0001", b"00000000000000000001"],
    "S1bws": [b"1 ;a=b", b"1\t;a", b"1 \t ;a"],
    "Sbad": [b"1x", b"-1", b"1_0", b"g", b";a=b", b"1 2", b"\xb2", b"1.0", b"0x", b"x1", b"1h", b"--1"],
    "Sbad1": [b"+1", b"0x1", b" 1", b"1 ", b"1\t", b"\t1", b"0X1", b"1\x0b", b"\x0c1", b"+01", b" 1 "],
    "Sempty": [b""],
    "Z0": [b"0"], "Z0ext": [b"0;a=b", b"0 ;a"], "Z00": [b"00", b"000"],
    "S1extlf": [b"1;a\nb", b"1;a\rb"],
}

POOL = bytes(range(0x80, 0x100))


class Concrete:
    def __init__(self):
        self.data = bytearray()
        self.spans = []          # per symbol (0-based index): (byte start, byte end)
        self.syms = []
        self.linelens = []       # (what, length in bytes without CRLF) for head lines of each message
        self.nx = 0

    def emit(self, sym, b):
        self.spans.append((len(self.data), len(self.data) + len(b)))
        self.syms.append(sym)
        self.data += b

    def crlf(self):
        self.emit("CR", b"\r")
        self.emit("LF", b"\n")

    def line(self, sym, body, pad, padbytes):
        """one line symbol, then `pad` PAD symbols of one byte each, then CRLF"""
        if isinstance(body, tuple):
            pre, suf = body
        else:
            pre, suf = body, b""
        if pad == 0:
            self.emit(sym, pre + suf)
        else:
            # the kind symbol carries prefix+suffix minus nothing; pads are separate 1-byte symbols.
            # bytes must stay in order: prefix, pads, suffix -> give the suffix to the last pad symbol
            self.emit(sym, pre)
            for i in range(pad):
                last = i == pad - 1
                self.emit("P", padbytes[i:i + 1] + (suf if last else b""))
        self.crlf()


def pick(lst, variant):
    return lst[variant % len(lst)]


def concretize(ms, variant=0, cut=None):
    """ms: list of descriptor dicts -> Concrete.  `cut` (in symbols) truncates the stream."""
    c = Concrete()
    v = variant
    for mi, m in enumerate(ms):
        pad = m.get("pad") or {"rl": 0, "h": 0, "c": 0, "t": 0}
        px = m.get("px", "none")
        if px in ("blank1", "blank2"):
            for _ in range(int(px[-1])):
                c.crlf()
        elif px != "none":
            c.line("PXbad" if px == "on_bad" else "PX", pick(PX_BAD if px == "on_bad" else PX_OK, v), 0, b"")
        rl = m["rl"]
        if rl == "RLbad":
            c.line(rl, (pick(RLBAD, v), b""), pad["rl"], b"a" * pad["rl"])
        else:
            c.line(rl, pick(RL11 if rl == "RL11" else RL10, v), pad["rl"], b"a" * pad["rl"])
        emb = pick(RL11, v + 1)
        emb = emb[0] + emb[1]
        for hi, h in enumerate(m["hdrs"]):
            p = pad["h"] if hi == 0 else 0
            if h == "CL5" and m["fr"] == "embed":
                # the declared length is the byte length of the embedded request
                c.line(h, pick([b"Content-Length: %d", b"content-length:%d", b"CONTENT-LENGTH: \t%d "], v) % (len(emb) + 4), 0, b"")
                continue
            _hdr(c, h, v + hi + mi, p)
        c.crlf()
        if m["fr"] == "embed":
            c.emit("RL11", emb)
            c.crlf()
            c.crlf()
        elif m["fr"] == "len":
            for _ in range(m["n"]):
                _x(c)
        elif m["fr"] == "chunked":
            for ci, ch in enumerate(m["chunks"]):
                p = pad["c"] if ci == 0 else 0
                _size(c, ch["sz"], v + ci, p)
                for _ in range(ch["n"]):
                    _x(c)
                if ch["term"]:
                    c.crlf()
                else:
                    for j in range(ch.get("junk", 0)):
                        c.emit("J", b"ZY"[j % 2:j % 2 + 1])
            if m["last"] != "none":
                p = pad["c"] if not m["chunks"] else 0
                _size(c, m["last"], v, p)
                for ti, t in enumerate(m["trl"]):
                    _hdr(c, t, v + ti + 3, pad["t"] if ti == 0 else 0)
                c.crlf()
    if cut is not None and cut < len(c.syms):
        nb = c.spans[cut][0] if cut < len(c.spans) else len(c.data)
        c.data = c.data[:nb]
        c.syms = c.syms[:cut]
        c.spans = c.spans[:cut]
    return c


def _x(c):
    c.emit("x", POOL[c.nx % len(POOL):c.nx % len(POOL) + 1])
    c.nx += 1


def _hdr(c, h, v, pad):
    sp = pick(HDR[h], v)
    if pad:
        assert h in PADDABLE, h
        if h.startswith("CL"):
            name, _, val = sp.partition(b":")
            # leading zeros inside the value
            val = val.strip(b" \t")
            c.line(h, (name + b": ", val), pad, b"0" * pad)
            return
        c.line(h, (sp, b""), pad, b"a" * pad)
        return
    c.line(h, sp, 0, b"")


def _size(c, s, v, pad):
    sp = pick(SIZE[s], v)
    if pad:
        # pad as a chunk extension: first pad byte ';' unless one is already present
        pb = (b"" if b";" in sp else b";") + b"a" * pad
        pb = pb[:pad]
        if s == "Sempty":
            for i in range(pad):
                c.emit("P", pb[i:i + 1])
            c.crlf()
            return
        c.line(s, (sp, b""), pad, pb)
        return
    if s == "Sempty":
        c.crlf()
        return
    c.line(s, sp, 0, b"")


def byte_to_sym_offset(c, boff):
    """byte offset -> symbol offset (number of whole symbols before it), -1 if inside a symbol."""
    if boff == len(c.data):
        return len(c.spans)
    for i, (s, e) in enumerate(c.spans):
        if s == boff:
            return i
        if s < boff < e:
            return -1
    return -1


def body_positions(c, body):
    """observed body bytes -> 1-based symbol positions (unique pool bytes), -1 for foreign bytes"""
    pos = {}
    for i, (s, e) in enumerate(c.spans):
        if c.syms[i] == "x":
            pos[bytes(c.data[s:e])] = i + 1
    return [pos.get(bytes([b]), -1) for b in body]


def num_variants(ms):
    n = 1
    for m in ms:
        n = max(n, len(RLBAD) if m["rl"] == "RLbad" else len(RL11))
        for h in list(m["hdrs"]) + list(m.get("trl", [])):
            n = max(n, len(HDR[h]))
        for ch in m.get("chunks", []):
            n = max(n, len(SIZE[ch["sz"]]))
        if m.get("last", "none") != "none":
            n = max(n, len(SIZE[m["last"]]))
    return n
